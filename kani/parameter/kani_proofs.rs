//! C06 — Parameter::{new,set,update,interpolated_value}.
// @deps info
use super::*;
use crate::kani_support::*;
use crate::info::kani_proofs::{empty_info, mock_info};
use crate::{Easing, Tween, Value};
use crate::clock::ClockTime;

/// Durations with symbolic whole seconds and a sub-second part from {0, 1/4, 1/2} s (keeps `as_secs_f64`'s
/// division by 1e9 constant-foldable; includes zero and durations shorter than one update).
fn any_duration(max_secs: u64) -> Duration {
    let s: u64 = kani::any();
    kani::assume(s <= max_secs);
    let n: u32 = match kani::any::<u8>() % 3 { 0 => 0, 1 => 250_000_000, _ => 500_000_000 };
    Duration::new(s, n)
}

fn any_dt() -> f64 {
    match kani::any::<u8>() % 5 { 0 => 0.0, 1 => 1.0 / 48000.0, 2 => 0.25, 3 => 1.0, _ => 3.5 }
}

fn any_simple_easing() -> Easing {
    if kani::any() { Easing::Linear } else { Easing::InPowi(2) }
}

/// An arbitrary tweening Parameter<f64> with a fixed target (wf_param: magnitudes <= 1e6, 0 <= time <= 1e6).
fn any_tweening(start_time: StartTime, duration: Duration) -> (Parameter<f64>, f64, f64, f64) {
    let raw = any_f64_in(-1.0e6, 1.0e6);
    let prev = any_f64_in(-1.0e6, 1.0e6);
    let start = any_f64_in(-1.0e6, 1.0e6);
    let target = any_f64_in(-1.0e6, 1.0e6);
    let time = any_f64_in(0.0, 1.0e6);
    let p = Parameter {
        state: State::Tweening { start, target: Value::Fixed(target), time, tween: Tween { start_time, duration, easing: any_simple_easing() } },
        raw_value: raw,
        previous_raw_value: prev,
        stagnant: false,
    };
    (p, start, target, time)
}

// @ob id=C06.1a strength=complete tier=quick fn=parameter.rs::Parameter::{new,set}
// @req any initial fixed value v0, any target (fixed), any tween (any duration, start time Immediate or Delayed, any easing)
// @ens new: raw == previous == v0, idle, stagnant; set: state = Tweening{start = current raw value, target, time = 0, tween}, raw and previous unchanged, stagnant cleared
#[kani::proof]
#[kani::unwind(4)]
fn c06_1a_new_and_set() {
    let v0: f64 = kani::any();
    let mut p = Parameter::new(Value::Fixed(v0), 0.0);
    assert!(p.raw_value.to_bits() == v0.to_bits() && p.previous_raw_value.to_bits() == v0.to_bits() && p.stagnant, "C06.1a: new");
    assert!(matches!(p.state, State::Idle { value: Value::Fixed(x) } if x.to_bits() == v0.to_bits()), "C06.1a: new is idle at v0");
    // make the value a mid-tween one
    let cur: f64 = kani::any();
    p.raw_value = cur;
    let target: f64 = kani::any();
    let tween = Tween { start_time: if kani::any() { StartTime::Immediate } else { StartTime::Delayed(any_duration(1000)) }, duration: any_duration(1000), easing: any_easing() };
    p.set(Value::Fixed(target), tween);
    assert!(!p.stagnant, "C06.1a: set clears stagnant");
    assert!(p.raw_value.to_bits() == cur.to_bits(), "C06.1a: set does not jump");
    match p.state {
        State::Tweening { start, target: Value::Fixed(t), time, tween: tw } => {
            assert!(start.to_bits() == cur.to_bits(), "C06.1a: a new tween begins from the current (possibly mid-tween) value");
            assert!(t.to_bits() == target.to_bits() && time == 0.0 && tw == tween, "C06.1a: target, zero elapsed time and the tween are stored");
        }
        _ => assert!(false, "C06.1a: set enters Tweening"),
    }
    kani::cover!(true);
}

// @ob id=C06.2a strength=complete tier=quick fn=parameter.rs::Parameter::update
// @req stagnant parameter (idle at a fixed value), any dt
// @ens returns false; previous' == raw; raw, state unchanged (a finished tween holds its target exactly forever)
#[kani::proof]
#[kani::unwind(4)]
fn c06_2a_stagnant_holds() {
    let v: f64 = kani::any();
    let prev: f64 = kani::any();
    let mut p = Parameter { state: State::Idle { value: Value::Fixed(v) }, raw_value: v, previous_raw_value: prev, stagnant: true };
    let info = empty_info();
    let fin = p.update(kani::any(), &info);
    assert!(!fin && p.raw_value.to_bits() == v.to_bits() && p.previous_raw_value.to_bits() == v.to_bits() && p.stagnant, "C06.2a: stagnant parameter holds its value");
    kani::cover!(true);
    core::mem::forget(info);
}

// @ob id=C06.2b strength=complete tier=quick fn=parameter.rs::Parameter::{update,update_tween}
// @req tweening parameter whose tween is Delayed(d), d > 0 (whole seconds symbolic, sub-second part in {0,1/4,1/2}); dt in {0, 1/48000, 0.25, 1, 3.5} s
// @ens returns false; elapsed time unchanged; the delay counts down by dt (saturating); still tweening to the same target; previous' == old raw (continuity)
#[kani::proof]
#[kani::unwind(4)]
#[kani::stub(Tween::value, tween_value_rec)]
#[kani::stub(<f64 as Tweenable>::interpolate, interpolate_f64_rec)]
fn c06_2b_delayed_only_counts_down() {
    let d = any_duration(1000);
    kani::assume(!d.is_zero());
    let dur = any_duration(1000);
    let (mut p, start, target, time) = any_tweening(StartTime::Delayed(d), dur);
    let raw0 = p.raw_value;
    let dt = any_dt();
    let info = empty_info();
    let fin = p.update(dt, &info);
    assert!(!fin, "C06.2b: a delayed tween does not finish before it starts");
    assert!(p.previous_raw_value.to_bits() == raw0.to_bits(), "C06.2b: previous value is the last raw value");
    match p.state {
        State::Tweening { start: s, target: Value::Fixed(t), time: tm, tween } => {
            assert!(s.to_bits() == start.to_bits() && t.to_bits() == target.to_bits() && tm.to_bits() == time.to_bits(), "C06.2b: nothing but the delay changes before the start time");
            assert!(tween.start_time == StartTime::Delayed(d.saturating_sub(Duration::from_secs_f64(dt))), "C06.2b: the delay counts down by dt");
        }
        _ => assert!(false, "C06.2b: still tweening"),
    }
    kani::cover!(dt > 0.0);
    core::mem::forget(info);
}

// @ob id=C06.2c strength=complete tier=quick fn=parameter.rs::Parameter::{update,update_tween,calculate_new_raw_value}
// @req tweening parameter (fixed target), start time Immediate or Delayed(0); elapsed time t, 0 <= dt <= 10, with t + dt >= duration (includes zero duration and durations shorter than one update)
// @ens returns true; state' = Idle{target}; raw' == target EXACTLY (bit-for-bit); stagnant; previous' == old raw
#[kani::proof]
#[kani::unwind(4)]
#[kani::stub(Tween::value, tween_value_rec)]
#[kani::stub(<f64 as Tweenable>::interpolate, interpolate_f64_rec)]
fn c06_2c_finishes_exactly_on_target() {
    let st = if kani::any() { StartTime::Immediate } else { StartTime::Delayed(Duration::ZERO) };
    let dur = any_duration(1000);
    let (mut p, _start, target, time) = any_tweening(st, dur);
    let raw0 = p.raw_value;
    let dt = any_dt();
    kani::assume(time + dt >= dur.as_secs_f64());
    let info = empty_info();
    let fin = p.update(dt, &info);
    assert!(fin, "C06.2c: the update that reaches the duration reports the tween as finished");
    assert!(p.raw_value.to_bits() == target.to_bits(), "C06.2c: from the end of the tween the value equals the target exactly");
    assert!(p.previous_raw_value.to_bits() == raw0.to_bits(), "C06.2c: previous value is the last raw value");
    assert!(p.stagnant && matches!(p.state, State::Idle { value: Value::Fixed(t) } if t.to_bits() == target.to_bits()), "C06.2c: idle at the target");
    kani::cover!(dur.is_zero());
    kani::cover!(!dur.is_zero() && dt > 0.0);
    core::mem::forget(info);
}

// @ob id=C06.2d strength=complete tier=quick fn=parameter.rs::Parameter::{update,update_tween,calculate_new_raw_value}
// @req as C06.2c but t + dt < duration (mid-tween step); Tween::value and f64::interpolate replaced by recording stand-ins (modular: their own contracts are C06.4e / C06.5)
// @ens returns false; time' == t + dt; exactly one call Tween::value(time') and one call interpolate(start, target, that value); raw' is the interpolate result; previous' == old raw; still tweening
#[kani::proof]
#[kani::unwind(4)]
#[kani::stub(Tween::value, tween_value_rec)]
#[kani::stub(<f64 as Tweenable>::interpolate, interpolate_f64_rec)]
fn c06_2d_mid_tween_step() {
    let st = if kani::any() { StartTime::Immediate } else { StartTime::Delayed(Duration::ZERO) };
    let dur = any_duration(1000);
    let (mut p, start, target, time) = any_tweening(st, dur);
    let raw0 = p.raw_value;
    let dt = any_dt();
    kani::assume(time + dt < dur.as_secs_f64());
    let info = empty_info();
    let fin = p.update(dt, &info);
    assert!(!fin, "C06.2d: a tween short of its duration is not finished");
    assert!(p.previous_raw_value.to_bits() == raw0.to_bits(), "C06.2d: previous value is the last raw value");
    match p.state {
        State::Tweening { start: s, target: Value::Fixed(t), time: tm, .. } => {
            assert!(tm == time + dt, "C06.2d: elapsed time accumulates dt");
            assert!(s.to_bits() == start.to_bits() && t.to_bits() == target.to_bits(), "C06.2d: start and target are kept");
        }
        _ => assert!(false, "C06.2d: still tweening"),
    }
    unsafe {
        assert!(TV_N == 1 && TV_TIME[0] == time + dt && TV_DUR[0] == dur.as_secs_f64(), "C06.2d: easing evaluated once at the new elapsed time");
        assert!(IP_N == 1 && IP_A[0].to_bits() == start.to_bits() && IP_B[0].to_bits() == target.to_bits() && IP_T[0].to_bits() == TV_RET[0].to_bits(), "C06.2d: value = interpolate(start, target, ease(elapsed/duration))");
        assert!(p.raw_value.to_bits() == IP_RET[0].to_bits(), "C06.2d: the raw value is that interpolation");
    }
    kani::cover!(dt > 0.0 && time > 0.0);
    core::mem::forget(info);
}

// @ob id=C06.2e,C05.4b strength=complete tier=quick fn=parameter.rs::Parameter::{update,update_tween}
// @req tweening parameter whose tween starts at a clock time; the clock is missing, or present with arbitrary (ticking, ticks, fraction)
// @ens the tween advances (time' = t + dt or finishes) iff the clock exists, is ticking and has reached the target time; otherwise elapsed time is unchanged and the tween is not finished
#[kani::proof]
#[kani::unwind(4)]
#[kani::stub(Tween::value, tween_value_rec)]
#[kani::stub(<f64 as Tweenable>::interpolate, interpolate_f64_rec)]
fn c06_2e_clock_start_time() {
    let have: bool = kani::any();
    let ticking: bool = kani::any();
    let ticks: u64 = kani::any();
    let fraction = any_f64_in(0.0, 0.999);
    let (info, cid, _) = mock_info(if have { Some((ticking, ticks, fraction)) } else { None }, None);
    let clock = match cid { Some(id) => id, None => crate::clock::ClockId(any_small_key(2)) };
    let tt: u64 = kani::any();
    let tf = any_f64_in(0.0, 0.999);
    let dur = any_duration(1000);
    let (mut p, _start, _target, time) = any_tweening(StartTime::ClockTime(ClockTime { clock, ticks: tt, fraction: tf }), dur);
    let dt = any_dt();
    let fin = p.update(dt, &info);
    let due = have && ticking && (ticks > tt || (ticks == tt && fraction >= tf));
    if due {
        if time + dt >= dur.as_secs_f64() {
            assert!(fin && matches!(p.state, State::Idle { .. }), "C06.2e: due and long enough => finished");
        } else {
            assert!(!fin && matches!(p.state, State::Tweening { time: tm, .. } if tm == time + dt), "C06.2e: due => elapsed time advances");
        }
    } else {
        assert!(!fin && matches!(p.state, State::Tweening { time: tm, .. } if tm.to_bits() == time.to_bits()), "C06.2e: not due (paused, short of the time, or clock missing) => the tween does not advance");
    }
    kani::cover!(due);
    kani::cover!(have && !ticking);
    kani::cover!(!have);
    core::mem::forget(info);
}

// @ob id=C06.3a strength=complete tier=quick fn=parameter.rs::Parameter::interpolated_value
// @req previous, raw finite with |.| <= 1e6
// @ens amount 0 gives previous exactly; amount 1 gives raw to rounding (|got - raw| <= 2.3e-10)
#[kani::proof]
#[kani::unwind(4)]
fn c06_3a_interpolated_value_endpoints() {
    let prev = any_f64_in(-1.0e6, 1.0e6);
    let raw = any_f64_in(-1.0e6, 1.0e6);
    let p = Parameter { state: State::Idle { value: Value::Fixed(raw) }, raw_value: raw, previous_raw_value: prev, stagnant: true };
    assert!(p.interpolated_value(0.0) == prev, "C06.3a: amount 0 is the previous chunk's final value (continuity across chunks)");
    let one = p.interpolated_value(1.0);
    assert!((one - raw).abs() <= 2.3e-10, "C06.3a: amount 1 is the current value");
    kani::cover!(prev < raw);
}

// @ob id=C06.3b strength=bounded tier=disabled bound="previous, raw, amount restricted to 4 significant mantissa bits" fn=parameter.rs::Parameter::interpolated_value
// @req previous, raw in [-1e6,1e6], amount in [0,1], 4-bit mantissas
// @ens the in-chunk value stays between previous and current (widened by 2.3e-10) and is monotone in the amount
#[kani::proof]
#[kani::unwind(4)]
fn c06_3b_interpolated_value_range() {
    let prev = any_f64_in(-1.0e6, 1.0e6);
    let raw = any_f64_in(-1.0e6, 1.0e6);
    let a = any_f64_in(0.0, 1.0);
    let b = any_f64_in(0.0, 1.0);
    let m = (1u64 << 48) - 1;
    kani::assume(prev.to_bits() & m == 0 && raw.to_bits() & m == 0 && a.to_bits() & m == 0 && b.to_bits() & m == 0);
    let p = Parameter { state: State::Idle { value: Value::Fixed(raw) }, raw_value: raw, previous_raw_value: prev, stagnant: true };
    let v = p.interpolated_value(a);
    let (lo, hi) = if prev < raw { (prev, raw) } else { (raw, prev) };
    assert!(v >= lo - 2.3e-10 && v <= hi + 2.3e-10, "C06.3b: in-chunk values stay between previous and current");
    let w = p.interpolated_value(b);
    if a <= b && prev <= raw { assert!(v <= w, "C06.3b: monotone within the chunk"); }
    kani::cover!(prev < raw && a > 0.0 && a < b);
}

// ----------------------------------------------------------------------------------------------------------------
// helpers for other harness modules (Parameter's fields are private to this module)
// ----------------------------------------------------------------------------------------------------------------
#[derive(Clone, Copy, PartialEq)]
pub(crate) enum PView<T> {
    Idle(T),
    IdleLinked,
    Tweening { start: T, target: Option<T>, time: f64, tween: Tween },
}

pub(crate) fn view<T: Tweenable>(p: &Parameter<T>) -> (PView<T>, T, T, bool) {
    let v = match &p.state {
        State::Idle { value: Value::Fixed(v) } => PView::Idle(*v),
        State::Idle { .. } => PView::IdleLinked,
        State::Tweening { start, target, time, tween } => PView::Tweening {
            start: *start,
            target: match target { Value::Fixed(t) => Some(*t), _ => None },
            time: *time,
            tween: *tween,
        },
    };
    (v, p.raw_value, p.previous_raw_value, p.stagnant)
}

pub(crate) fn make<T: Tweenable>(v: PView<T>, raw: T, prev: T, stagnant: bool) -> Parameter<T> {
    let state = match v {
        PView::Idle(x) => State::Idle { value: Value::Fixed(x) },
        PView::IdleLinked => State::Idle { value: Value::Fixed(raw) },
        PView::Tweening { start, target, time, tween } => State::Tweening { start, target: Value::Fixed(target.unwrap_or(raw)), time, tween },
    };
    Parameter { state, raw_value: raw, previous_raw_value: prev, stagnant }
}

pub(crate) static mut PU_N: usize = 0;
pub(crate) static mut PU_DT: [f64; 4] = [0.0; 4];
pub(crate) static mut PU_RET: [bool; 4] = [false; 4];

/// Recording stand-in for `Parameter::update` (contract: C06.2a-e): returns an arbitrary "just finished" flag,
/// records dt; leaves the parameter untouched.
pub(crate) fn param_update_rec<T: Tweenable>(_this: &mut Parameter<T>, dt: f64, _info: &Info) -> bool {
    let r: bool = kani::any();
    unsafe {
        if PU_N < 4 { PU_DT[PU_N] = dt; PU_RET[PU_N] = r; }
        PU_N += 1;
    }
    r
}

// @ob id=C06.2f,C17.5c strength=bounded tier=quick timeout=1800 bound="modulator values and mapping on a dyadic grid: identity mapping (0,1)->(0,1), linear easing; modulator value first m1 then m2 from {0, 1/4, 1/2, 3/4, 1}" fn=parameter.rs::Parameter::{update,update_tween,calculate_new_raw_value}
// @req a parameter tweening (zero or finished duration) towards a target LINKED to a modulator; two updates, the modulator's value changing in between
// @ens when the tween ends the parameter equals the mapping of the modulator's current value and it is NOT frozen: at the next update it equals the mapping of the modulator's new value (a linked parameter follows its modulator in every chunk); only tweens to fixed targets may go stagnant
#[kani::proof]
#[kani::unwind(4)]
fn c06_2f_tween_to_linked_target_keeps_following() {
    let pick = |k: u8| match k % 5 { 0 => 0.0f64, 1 => 0.25, 2 => 0.5, 3 => 0.75, _ => 1.0 };
    let (m1, m2) = (pick(kani::any()), pick(kani::any()));
    let (info1, _, id1) = mock_info(None, Some(m1));
    let (info2, _, id2) = mock_info(None, Some(m2));
    assert!(id1 == id2, "same slot, same id in both snapshots");
    let mapping = crate::Mapping { input_range: (0.0, 1.0), output_range: (0.0f64, 1.0f64), easing: Easing::Linear };
    let target = Value::FromModulator { id: id1.unwrap(), mapping };
    let mut p = Parameter::new(Value::Fixed(0.5f64), 0.0);
    p.set(target, Tween { start_time: StartTime::Immediate, duration: Duration::ZERO, easing: Easing::Linear });
    let fin = p.update(0.25, &info1);
    assert!(fin, "C06.2f: a zero-duration tween finishes at the next update");
    assert!(p.raw_value == m1, "C17.5c: the linked parameter equals the mapping of the modulator's current value in the same update");
    assert!(!p.stagnant, "C06.2f: a parameter linked to a modulator never goes stagnant");
    let fin2 = p.update(0.25, &info2);
    assert!(!fin2 && p.raw_value == m2 && p.previous_raw_value == m1, "C17.5c: and keeps following the modulator in later chunks");
    kani::cover!(m1 != m2);
    core::mem::forget(info1); core::mem::forget(info2);
}
