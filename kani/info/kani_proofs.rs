//! Info construction helpers (arenas of capacity 1 built through the Mock variant, so that symbolic clock /
//! modulator state is cheap) and the obligations on Info::{clock_info, when_to_start, modulator_value}.
use super::*;
use crate::kani_support::*;
use crate::clock::{ClockId, ClockTime};
use crate::modulator::ModulatorId;
use atomic_arena::Arena;

/// An `Info` (Mock kind) holding at most one clock and at most one modulator value.
pub(crate) fn mock_info(clock: Option<(bool, u64, f64)>, modulator: Option<f64>) -> (Info<'static>, Option<ClockId>, Option<ModulatorId>) {
    let mut clock_info: Arena<ClockInfo> = Arena::new(2);
    let mut modulator_values: Arena<f64> = Arena::new(2);
    let listener_info: Arena<ListenerInfo> = Arena::new(0);
    let mut cid = None;
    if let Some((ticking, ticks, fraction)) = clock {
        let key = clock_info.controller().try_reserve().unwrap();
        let id = ClockId(key);
        clock_info.insert_with_key(key, ClockInfo { ticking, time: ClockTime { clock: id, ticks, fraction } }).unwrap();
        cid = Some(id);
    }
    let mut mid = None;
    if let Some(v) = modulator {
        let key = modulator_values.controller().try_reserve().unwrap();
        modulator_values.insert_with_key(key, v).unwrap();
        mid = Some(ModulatorId(key));
    }
    (Info { kind: InfoKind::Mock { clock_info, modulator_values, listener_info }, spatial_track_info: None }, cid, mid)
}

/// An `Info` that resolves nothing.
pub(crate) fn empty_info() -> Info<'static> {
    mock_info(None, None).0
}

// @ob id=C05.3a strength=complete tier=quick fn=info.rs::Info::when_to_start
// @req one clock with arbitrary (ticking, ticks, fraction in [0,1)); target time on that clock with arbitrary (ticks, fraction in [0,1))
// @ens Now <=> ticking && (ticks, fraction) >= target lexicographically; otherwise Later; never Never for a live clock
#[kani::proof]
#[kani::unwind(4)]
fn c05_3a_when_to_start_live_clock() {
    let ticking: bool = kani::any();
    let ticks: u64 = kani::any();
    let fraction = any_f64_in(0.0, 1.0);
    kani::assume(fraction < 1.0);
    let (info, cid, _) = mock_info(Some((ticking, ticks, fraction)), None);
    let id = cid.unwrap();
    let tt: u64 = kani::any();
    let tf = any_f64_in(0.0, 1.0);
    kani::assume(tf < 1.0);
    let w = info.when_to_start(ClockTime { clock: id, ticks: tt, fraction: tf });
    let reached = ticks > tt || (ticks == tt && fraction >= tf);
    if ticking && reached {
        assert!(w == WhenToStart::Now, "C05.3a: a ticking clock at or past the target starts now");
    } else {
        assert!(w == WhenToStart::Later, "C05.3a: a paused clock, or one short of the target, starts later");
    }
    kani::cover!(ticking && reached);
    kani::cover!(!ticking && reached);
    kani::cover!(ticking && ticks == tt && fraction < tf);
    core::mem::forget(info);
}

// @ob id=C05.3b,C08.3a strength=complete tier=quick fn=info.rs::Info::{clock_info,when_to_start}
// @req an Info with no clock, or one clock and a time whose key differs from that clock's key (index and generation both below the arena capacity 2)
// @ens clock_info is None and when_to_start is Never (a missing clock cancels what waits on it; a stale id never resolves)
#[kani::proof]
#[kani::unwind(4)]
fn c05_3b_missing_clock_never() {
    let have: bool = kani::any();
    let (info, cid, _) = mock_info(if have { Some((kani::any(), kani::any(), 0.0)) } else { None }, None);
    let other = ClockId(any_small_key(2));
    if let Some(id) = cid { kani::assume(other != id); }
    let t = ClockTime { clock: other, ticks: kani::any(), fraction: 0.0 };
    assert!(info.clock_info(other).is_none(), "C05.3b: an id that is not the live clock's id does not resolve");
    assert!(info.when_to_start(t) == WhenToStart::Never, "C05.3b: missing clock => Never");
    kani::cover!(have);
    kani::cover!(!have);
    core::mem::forget(info);
}

// @ob id=C17.5a,C08.3b strength=complete tier=quick fn=info.rs::Info::modulator_value
// @req one modulator with arbitrary value v; a second arbitrary key
// @ens the live id resolves to exactly v; any other key resolves to None
#[kani::proof]
#[kani::unwind(4)]
fn c17_5a_modulator_value_lookup() {
    let v: f64 = kani::any();
    let (info, _, mid) = mock_info(None, Some(v));
    let id = mid.unwrap();
    let got = info.modulator_value(id);
    assert!(got.is_some() && got.unwrap().to_bits() == v.to_bits(), "C17.5a: a live modulator id resolves to its current value");
    let other = ModulatorId(any_small_key(2));
    kani::assume(other != id);
    assert!(info.modulator_value(other).is_none(), "C17.5a: any other id does not resolve");
    kani::cover!(true);
    core::mem::forget(info);
}
