//! C03.1 / C03.2 — the playback state machine.
// @deps info,parameter
use super::*;
use crate::kani_support::*;
use crate::info::kani_proofs::{empty_info, mock_info};
use crate::parameter::kani_proofs::{make, view, PView, param_update_rec, PU_N, PU_RET};
use crate::clock::{ClockId, ClockTime};
use crate::Easing;
use std::time::Duration;

/// A state machine that is Paused with its fade resting at exactly -60 dB (what `pause` + a completed fade produce: C03.1a, C03.2a/d).
pub(crate) fn paused_manager() -> PlaybackStateManager {
    PlaybackStateManager { state: State::Paused, volume_fade: make(PView::Idle(Decibels::SILENCE), Decibels::SILENCE, Decibels::SILENCE, true) }
}

/// A state machine that is WaitingToResume (what `resume_at(start_time)` on a paused machine produces: C03.1b): the fade still rests at -60 dB.
pub(crate) fn waiting_manager(start_time: StartTime) -> PlaybackStateManager {
    PlaybackStateManager {
        state: State::WaitingToResume { start_time, fade_in_tween: Tween { start_time: StartTime::Immediate, duration: Duration::ZERO, easing: Easing::Linear } },
        volume_fade: make(PView::Idle(Decibels::SILENCE), Decibels::SILENCE, Decibels::SILENCE, true),
    }
}

fn small_duration() -> Duration {
    let s: u64 = kani::any();
    kani::assume(s <= 100);
    Duration::new(s, if kani::any() { 0 } else { 500_000_000 })
}

fn any_tween() -> Tween {
    let st = match kani::any::<u8>() % 3 {
        0 => StartTime::Immediate,
        1 => StartTime::Delayed(small_duration()),
        _ => StartTime::ClockTime(ClockTime { clock: ClockId(any_small_key(2)), ticks: kani::any(), fraction: 0.0 }),
    };
    Tween { start_time: st, duration: small_duration(), easing: any_easing() }
}

fn any_start_time() -> StartTime {
    match kani::any::<u8>() % 3 {
        0 => StartTime::Immediate,
        1 => StartTime::Delayed(small_duration()),
        _ => StartTime::ClockTime(ClockTime { clock: ClockId(any_small_key(2)), ticks: kani::any(), fraction: 0.0 }),
    }
}

fn any_state() -> State {
    match kani::any::<u8>() % 7 {
        0 => State::Playing,
        1 => State::Pausing,
        2 => State::Paused,
        3 => State::WaitingToResume { start_time: any_start_time(), fade_in_tween: any_tween() },
        4 => State::Resuming,
        5 => State::Stopping,
        _ => State::Stopped,
    }
}

fn disc(s: &State) -> u8 {
    match s {
        State::Playing => 0, State::Pausing => 1, State::Paused => 2, State::WaitingToResume { .. } => 3,
        State::Resuming => 4, State::Stopping => 5, State::Stopped => 6,
    }
}

/// arbitrary fade parameter (idle at some level, or mid-fade)
fn any_fade() -> Parameter<Decibels> {
    let raw = Decibels(any_f32_in(-60.0, 0.0));
    let prev = Decibels(any_f32_in(-60.0, 0.0));
    if kani::any() {
        make(PView::Idle(raw), raw, prev, true)
    } else {
        let start = Decibels(any_f32_in(-60.0, 0.0));
        let target = if kani::any() { Decibels::SILENCE } else { Decibels::IDENTITY };
        let time = any_f64_in(0.0, 100.0);
        make(PView::Tweening { start, target: Some(target), time, tween: any_tween() }, raw, prev, false)
    }
}

fn same_fade(a: &Parameter<Decibels>, b: &(PView<Decibels>, Decibels, Decibels, bool)) -> bool {
    let v = view(a);
    v.0 == b.0 && v.1 .0.to_bits() == b.1 .0.to_bits() && v.2 .0.to_bits() == b.2 .0.to_bits() && v.3 == b.3
}

// @ob id=C03.1a strength=complete tier=quick fn=playback_state_manager.rs::PlaybackStateManager::{pause,stop}
// @req every one of the 7 states (WaitingToResume with any start time and tween), any fade parameter (idle or mid-fade, -60..0 dB), any fade-out tween
// @ens Stopped is absorbing (state and fade untouched); otherwise pause -> Pausing, stop -> Stopping, and the fade is retargeted to exactly SILENCE starting from its current value at elapsed time 0 with the given tween; the current gain does not jump
#[kani::proof]
#[kani::unwind(4)]
fn c03_1a_pause_stop() {
    let st = any_state();
    let d0 = disc(&st);
    let mut m = PlaybackStateManager { state: st, volume_fade: any_fade() };
    let before = view(&m.volume_fade);
    let tween = any_tween();
    let is_stop: bool = kani::any();
    if is_stop { m.stop(tween) } else { m.pause(tween) }
    if d0 == 6 {
        assert!(disc(&m.state) == 6 && same_fade(&m.volume_fade, &before), "C03.1a: Stopped ignores pause/stop");
    } else {
        assert!(disc(&m.state) == if is_stop { 5 } else { 1 }, "C03.1a: pause -> Pausing, stop -> Stopping");
        let after = view(&m.volume_fade);
        assert!(after.1 .0.to_bits() == before.1 .0.to_bits(), "C03.1a: the gain does not jump when a fade-out starts");
        assert!(!after.3, "C03.1a: fade is live");
        assert!(after.0 == PView::Tweening { start: before.1, target: Some(Decibels::SILENCE), time: 0.0, tween }, "C03.1a: fade-out runs from the current gain to exactly -60 dB with the given tween");
    }
    kani::cover!(d0 == 6);
    kani::cover!(d0 == 3 && is_stop);
    kani::cover!(d0 == 4 && !is_stop);
}

// @ob id=C03.1b strength=complete tier=quick fn=playback_state_manager.rs::PlaybackStateManager::{resume,mark_as_stopped,playback_state}
// @req as C03.1a; any start time (Immediate, Delayed, ClockTime) and fade-in tween
// @ens Stopped ignores resume; resume(Immediate) -> Resuming with the fade retargeted to exactly 0 dB from the current gain; resume(later) -> WaitingToResume storing that start time and tween, fade untouched; mark_as_stopped -> Stopped from anywhere; playback_state() reports the matching public state
#[kani::proof]
#[kani::unwind(4)]
fn c03_1b_resume_mark() {
    let st = any_state();
    let d0 = disc(&st);
    let mut m = PlaybackStateManager { state: st, volume_fade: any_fade() };
    let before = view(&m.volume_fade);
    let tween = any_tween();
    let when = any_start_time();
    if kani::any() {
        m.mark_as_stopped();
        assert!(disc(&m.state) == 6 && m.playback_state() == PlaybackState::Stopped && same_fade(&m.volume_fade, &before), "C03.1b: mark_as_stopped");
        return;
    }
    m.resume(when, tween);
    if d0 == 6 {
        assert!(disc(&m.state) == 6 && same_fade(&m.volume_fade, &before), "C03.1b: Stopped ignores resume");
    } else if when == StartTime::Immediate {
        assert!(disc(&m.state) == 4 && m.playback_state() == PlaybackState::Resuming, "C03.1b: resume -> Resuming");
        let after = view(&m.volume_fade);
        assert!(after.1 .0.to_bits() == before.1 .0.to_bits(), "C03.1b: the gain does not jump when a fade-in starts");
        assert!(after.0 == PView::Tweening { start: before.1, target: Some(Decibels::IDENTITY), time: 0.0, tween }, "C03.1b: fade-in runs from the current gain to exactly 0 dB");
    } else {
        assert!(m.playback_state() == PlaybackState::WaitingToResume, "C03.1b: resume_at -> WaitingToResume");
        assert!(matches!(&m.state, State::WaitingToResume { start_time, fade_in_tween } if *start_time == when && *fade_in_tween == tween), "C03.1b: start time and tween are stored");
        assert!(same_fade(&m.volume_fade, &before), "C03.1b: waiting does not touch the fade");
    }
    kani::cover!(d0 == 6);
    kani::cover!(d0 == 2 && when == StartTime::Immediate);
    kani::cover!(d0 == 1 && when != StartTime::Immediate);
}

// @ob id=C03.1c strength=complete tier=quick fn=playback_state_manager.rs::PlaybackStateManager::{new,playback_state}
// @req any optional fade-in tween
// @ens new() starts Playing; with a fade-in tween the fade runs from exactly -60 dB to exactly 0 dB, without one the gain is idle at 0 dB; playback_state maps each of the 7 internal states to its public namesake
#[kani::proof]
#[kani::unwind(4)]
fn c03_1c_new_and_state_mapping() {
    let t = any_tween();
    let m = PlaybackStateManager::new(if kani::any() { Some(t) } else { None });
    assert!(m.playback_state() == PlaybackState::Playing, "C03.1c: a new sound is Playing");
    let v = view(&m.volume_fade);
    match v.0 {
        PView::Idle(x) => assert!(x == Decibels::IDENTITY && v.1 == Decibels::IDENTITY && v.3, "C03.1c: no fade-in => unity gain"),
        PView::Tweening { start, target, time, tween } => assert!(start == Decibels::SILENCE && target == Some(Decibels::IDENTITY) && time == 0.0 && tween == t && v.1 == Decibels::SILENCE, "C03.1c: fade-in from silence to unity"),
        _ => assert!(false),
    }
    let st = any_state();
    let d = disc(&st);
    let m2 = PlaybackStateManager { state: st, volume_fade: any_fade() };
    let want = match d { 0 => PlaybackState::Playing, 1 => PlaybackState::Pausing, 2 => PlaybackState::Paused, 3 => PlaybackState::WaitingToResume, 4 => PlaybackState::Resuming, 5 => PlaybackState::Stopping, _ => PlaybackState::Stopped };
    assert!(m2.playback_state() == want, "C03.1c: playback_state mapping");
    kani::cover!(d == 3);
}

// @ob id=C03.2a strength=complete tier=quick fn=playback_state_manager.rs::PlaybackStateManager::update
// @req every state except WaitingToResume; any fade; Parameter::update replaced by its recording stand-in returning an arbitrary `finished` flag (its contract is C06.2)
// @ens the fade parameter is updated exactly once with dt; Pausing&finished -> Paused, Resuming&finished -> Playing, Stopping&finished -> Stopped, everything else unchanged (Playing, Paused, Stopped never move); returns true iff the state changed
#[kani::proof]
#[kani::unwind(4)]
#[kani::stub(Parameter::update, param_update_rec)]
fn c03_2a_update_fade_driven() {
    let st = any_state();
    let d0 = disc(&st);
    kani::assume(d0 != 3);
    let mut m = PlaybackStateManager { state: st, volume_fade: any_fade() };
    let info = empty_info();
    let changed = m.update(any_f64_in(0.0, 10.0), &info);
    let d1 = disc(&m.state);
    let finished = unsafe { assert!(PU_N == 1, "C03.2a: the fade is advanced exactly once per update"); PU_RET[0] };
    let want = match (d0, finished) { (1, true) => 2, (4, true) => 0, (5, true) => 6, (d, _) => d };
    assert!(d1 == want, "C03.2a: fade-driven transitions complete exactly when the fade tween completes");
    assert!(changed == (d1 != d0), "C03.2a: update reports a state change iff there was one");
    kani::cover!(d0 == 1 && finished);
    kani::cover!(d0 == 5 && !finished);
    kani::cover!(d0 == 6);
    core::mem::forget(info);
}

// @ob id=C03.2b,C05.4c strength=complete tier=quick fn=playback_state_manager.rs::PlaybackStateManager::update
// @req WaitingToResume with a clock start time; clock missing, or present with arbitrary (ticking, ticks, fraction); Parameter::update stubbed as in C03.2a
// @ens clock missing -> Stopped (returns true); clock ticking and at/after the target -> Resuming with the stored fade-in tween retargeting the fade to exactly 0 dB (returns true); otherwise still WaitingToResume with the same start time (returns false)
#[kani::proof]
#[kani::unwind(4)]
#[kani::stub(Parameter::update, param_update_rec)]
fn c03_2b_update_waiting_on_clock() {
    let have: bool = kani::any();
    let ticking: bool = kani::any();
    let ticks: u64 = kani::any();
    let fraction = any_f64_in(0.0, 0.999);
    let (info, cid, _) = mock_info(if have { Some((ticking, ticks, fraction)) } else { None }, None);
    let clock = match cid { Some(id) => id, None => ClockId(any_small_key(2)) };
    let tt: u64 = kani::any();
    let tf = any_f64_in(0.0, 0.999);
    let when = StartTime::ClockTime(ClockTime { clock, ticks: tt, fraction: tf });
    let tween = any_tween();
    let mut m = PlaybackStateManager { state: State::WaitingToResume { start_time: when, fade_in_tween: tween }, volume_fade: any_fade() };
    let before = view(&m.volume_fade);
    let changed = m.update(any_f64_in(0.0, 10.0), &info);
    let due = ticking && (ticks > tt || (ticks == tt && fraction >= tf));
    if !have {
        assert!(changed && disc(&m.state) == 6, "C03.2b: waiting on a clock that no longer exists => Stopped");
    } else if due {
        assert!(changed && disc(&m.state) == 4, "C03.2b: the clock reached the time => Resuming");
        let after = view(&m.volume_fade);
        assert!(after.0 == PView::Tweening { start: before.1, target: Some(Decibels::IDENTITY), time: 0.0, tween }, "C03.2b: the stored fade-in tween is started towards exactly 0 dB");
    } else {
        assert!(!changed && matches!(&m.state, State::WaitingToResume { start_time, fade_in_tween } if *start_time == when && *fade_in_tween == tween), "C03.2b: not yet => keeps waiting (never early, never while the clock is paused)");
        assert!(same_fade(&m.volume_fade, &before), "C03.2b: waiting does not touch the fade");
    }
    kani::cover!(!have);
    kani::cover!(have && due);
    kani::cover!(have && !ticking && ticks > tt);
    core::mem::forget(info);
}

// @ob id=C03.2c strength=complete tier=quick fn=playback_state_manager.rs::PlaybackStateManager::update
// @req WaitingToResume with a Delayed(d) start time, d = whole seconds <= 100 (+ 0 or 1/2 s); dt in {0, 0.25, 1, 3.5}; Parameter::update stubbed
// @ens d (-) dt == 0 -> Resuming (returns true); otherwise still waiting with the delay reduced by dt (returns false)
#[kani::proof]
#[kani::unwind(4)]
#[kani::stub(Parameter::update, param_update_rec)]
fn c03_2c_update_waiting_delayed() {
    let d = small_duration();
    let tween = any_tween();
    let mut m = PlaybackStateManager { state: State::WaitingToResume { start_time: StartTime::Delayed(d), fade_in_tween: tween }, volume_fade: any_fade() };
    let dt = match kani::any::<u8>() % 4 { 0 => 0.0, 1 => 0.25, 2 => 1.0, _ => 3.5 };
    let info = empty_info();
    let changed = m.update(dt, &info);
    let left = d.saturating_sub(Duration::from_secs_f64(dt));
    if left.is_zero() {
        assert!(changed && disc(&m.state) == 4, "C03.2c: the delay ran out => Resuming");
    } else {
        assert!(!changed && matches!(&m.state, State::WaitingToResume { start_time: StartTime::Delayed(x), .. } if *x == left), "C03.2c: the delay counts down");
    }
    kani::cover!(left.is_zero() && !d.is_zero());
    kani::cover!(!left.is_zero());
    core::mem::forget(info);
}

// @ob id=C03.2d strength=complete tier=quick fn=playback_state_manager.rs::PlaybackStateManager::{update,interpolated_fade_volume}
// @req Pausing / Stopping / Resuming with the REAL fade parameter mid-fade (any start level, linear easing, elapsed t, dt with t + dt >= duration); no stubs on Parameter
// @ens the state completes (Paused / Stopped / Playing) in this very update and the fade gain is then exactly -60 dB resp. 0 dB, whose amplitude is exactly 0.0 resp. 1.0 (silence is exact silence, unity is exact unity)
#[kani::proof]
#[kani::unwind(8)]
#[kani::stub(f32::powf, powf32_model)]
fn c03_2d_fade_completion_exact() {
    let which = kani::any::<u8>() % 3;
    let (st, target) = match which { 0 => (State::Pausing, Decibels::SILENCE), 1 => (State::Stopping, Decibels::SILENCE), _ => (State::Resuming, Decibels::IDENTITY) };
    let start = Decibels(any_f32_in(-60.0, 0.0));
    let raw = Decibels(any_f32_in(-60.0, 0.0));
    let dur = small_duration();
    let time = any_f64_in(0.0, 100.0);
    let dt = match kani::any::<u8>() % 4 { 0 => 0.0, 1 => 0.25, 2 => 1.0, _ => 200.0 };
    kani::assume(time + dt >= dur.as_secs_f64());
    let tween = Tween { start_time: StartTime::Immediate, duration: dur, easing: Easing::Linear };
    let mut m = PlaybackStateManager { state: st, volume_fade: make(PView::Tweening { start, target: Some(target), time, tween }, raw, raw, false) };
    let info = empty_info();
    let changed = m.update(dt, &info);
    assert!(changed, "C03.2d: the fade-driven step completes when its tween completes");
    assert!(disc(&m.state) == match which { 0 => 2, 1 => 6, _ => 0 }, "C03.2d: Pausing->Paused, Stopping->Stopped, Resuming->Playing");
    let g = m.interpolated_fade_volume(1.0);
    assert!(g.0 == target.0, "C03.2d: the gain ends exactly on -60 dB / 0 dB");
    let amp = g.as_amplitude();
    assert!(amp == if which == 2 { 1.0 } else { 0.0 }, "C03.2d: exactly silence / exactly unity");
    kani::cover!(which == 0 && dur.is_zero());
    kani::cover!(which == 2 && !dur.is_zero());
    core::mem::forget(info);
}
