//! C01.4 / C02.5 / C16.1 — the real Renderer (all resource storages with capacity 0), small buffers.
// @deps info,parameter
use super::*;
use crate::kani_support::*;
use crate::backend::resources::create_resources;
use crate::manager::Capacities;
use crate::track::MainTrackBuilder;

pub(crate) fn small_renderer(sample_rate: u32, ibs: usize) -> Renderer {
    let caps = Capacities { sub_track_capacity: 0, send_track_capacity: 0, clock_capacity: 0, modulator_capacity: 0, listener_capacity: 0 };
    let (resources, controllers) = create_resources(caps, MainTrackBuilder::new().sound_capacity(0), sample_rate, ibs);
    core::mem::forget(controllers);
    Renderer::new(Arc::new(RendererShared::new(sample_rate)), ibs, resources)
}

fn run_output(nc: u16) {
    let mut r = small_renderer(48000, 2);
    let b0 = Frame::new(any_f32_in(-1.0e6, 1.0e6), any_f32_in(-1.0e6, 1.0e6));
    let b1 = Frame::new(any_f32_in(-1.0e6, 1.0e6), any_f32_in(-1.0e6, 1.0e6));
    r.temp_buffer[0] = b0;
    r.temp_buffer[1] = b1;
    let (ptr, len, cap) = (r.temp_buffer.as_ptr(), r.temp_buffer.len(), r.temp_buffer.capacity());
    let mut out = [7.0f32; 9];
    let n = 3 * nc as usize;
    r.process(&mut out[..n], nc);
    let mut i = 0;
    while i < 9 {
        if i < n { assert!(out[i] >= -1.0 && out[i] <= 1.0, "C01.4: every written sample is a finite number in [-1, 1]"); }
        else { assert!(out[i] == 7.0, "C01.4: nothing beyond the callback's buffer is written"); }
        i += 1;
    }
    let cl = |x: f32| x.clamp(-1.0, 1.0);
    if nc == 1 {
        assert!(out[0] == (cl(b0.left) + cl(b0.right)) / 2.0 && out[1] == (cl(b1.left) + cl(b1.right)) / 2.0, "C01.4: mono output is the mean of left and right");
        assert!(out[2] == 0.0, "C02.5: the bus is cleared between chunks");
    } else {
        let s = nc as usize;
        assert!(out[0] == cl(b0.left) && out[1] == cl(b0.right) && out[s] == cl(b1.left) && out[s + 1] == cl(b1.right), "C01.4: stereo pair is the clamped bus");
        assert!(out[2 * s] == 0.0 && out[2 * s + 1] == 0.0, "C02.5: the bus is cleared between chunks");
        if nc == 3 { assert!(out[2] == 0.0 && out[5] == 0.0 && out[8] == 0.0, "C01.4: channels beyond the second are silent"); }
    }
    assert!(r.temp_buffer[0].left == 0.0 && r.temp_buffer[0].right == 0.0 && r.temp_buffer[1].left == 0.0 && r.temp_buffer[1].right == 0.0, "C02.5: nothing is left in the renderer's bus");
    assert!(r.temp_buffer.as_ptr() == ptr && r.temp_buffer.len() == len && r.temp_buffer.capacity() == cap, "C01.9: the scratch buffer is not reallocated in the callback");
    kani::cover!(b0.left > 1.0);
    core::mem::forget(r);
}

// @ob id=C01.4a,C02.5a strength=bounded tier=quick bound="internal buffer size 2; callback of 3 frames (one full chunk + one remainder chunk); 2 output channels; the mix bus pre-loaded with arbitrary non-NaN frames (|x| <= 1e6)" fn=backend/renderer.rs::Renderer::{process,process_chunk}
// @req stereo output, out.len() = 6
// @ens every written sample is finite and within [-1,1] and is the clamped bus; the bus (temp_buffer) is all zero on return and between chunks; the scratch buffer is not reallocated
#[kani::proof]
#[kani::unwind(10)]
fn c01_4a_output_stereo() { run_output(2) }

// @ob id=C01.4b strength=bounded tier=quick bound="as C01.4a with 1 output channel" fn=backend/renderer.rs::Renderer::{process,process_chunk}
// @req mono output, out.len() = 3
// @ens the single channel is the mean of the clamped left and right
#[kani::proof]
#[kani::unwind(10)]
fn c01_4b_output_mono() { run_output(1) }

// @ob id=C01.4c strength=bounded tier=quick bound="as C01.4a with 3 output channels" fn=backend/renderer.rs::Renderer::{process,process_chunk}
// @req 3 output channels, out.len() = 9
// @ens channels beyond the second are exactly 0.0
#[kani::proof]
#[kani::unwind(10)]
fn c01_4c_output_three_channels() { run_output(3) }

// @ob id=C16.1 strength=bounded tier=quick bound="real Renderer with empty resources; sample rates from {8000, 44100, 48000, 192000}" fn=backend/renderer.rs::Renderer::{new,on_change_sample_rate}
// @req sample rate sr, new rate sr2 from the set
// @ens dt == 1/sr after new and == 1/sr2 after on_change_sample_rate, and the shared (caller-visible) sample rate is sr2
#[kani::proof]
#[kani::unwind(6)]
fn c16_1_dt_follows_sample_rate() {
    let pick = |k: u8| match k % 4 { 0 => 8000u32, 1 => 44100, 2 => 48000, _ => 192000 };
    let sr = pick(kani::any());
    let sr2 = pick(kani::any());
    let mut r = small_renderer(sr, 1);
    assert!(r.dt == 1.0 / sr as f64, "C16.1: dt = 1 / sample rate");
    r.on_change_sample_rate(sr2);
    assert!(r.dt == 1.0 / sr2 as f64, "C16.1: dt follows a sample-rate change");
    assert!(r.shared.sample_rate.load(Ordering::SeqCst) == sr2, "C16.1: tracks created later read the rate in force");
    kani::cover!(sr != sr2);
    core::mem::forget(r);
}
