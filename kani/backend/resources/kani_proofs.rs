//! C08 / C01.6 — resource storages: capacity accounting, recycling through the unused ring, stale keys.
use super::*;
use crate::kani_support::*;

// @ob id=C08.1a,C01.6a strength=bounded tier=quick timeout=2400 bound="capacity 2, T = u32, one fixed history: create x3, callback, callback removing one (which one symbolic), create x2, callback" fn=backend/resources.rs::{ResourceController::{insert,try_reserve,insert_with_key,len,capacity},ResourceStorage::remove_and_add}
// @req capacity 2
// @ens creation succeeds exactly while fewer than `capacity` resources are alive or awaiting removal, otherwise Err(ResourceLimitReached) without panicking; len == created - removed <= capacity at every step; a resource created but not yet picked up counts; remove_and_add never panics; the slot of a removed resource is reusable right after the callback that removed it
#[kani::proof]
#[kani::unwind(6)]
fn c08_1a_capacity_accounting() {
    let (mut storage, mut ctl) = ResourceStorage::<u32>::new(2);
    assert!(ctl.capacity() == 2 && ctl.len() == 0, "C08.1a: empty");
    assert!(ctl.insert(10).is_ok() && ctl.len() == 1, "C08.1a: first create");
    assert!(ctl.insert(11).is_ok() && ctl.len() == 2, "C08.1a: second create (not yet picked up by the audio thread, still counted)");
    assert!(ctl.insert(12).is_err() && ctl.len() == 2, "C08.1a: third create hits the limit and reports it");
    storage.remove_and_add(|_| false);
    assert!(ctl.len() == 2 && storage.resources.len() == 2, "C08.1a: picked up");
    let victim: u32 = if kani::any() { 10 } else { 11 };
    storage.remove_and_add(|v| *v == victim);
    assert!(ctl.len() == 1 && storage.resources.len() == 1, "C08.1a: removal frees the slot at the callback");
    assert!(ctl.insert(13).is_ok() && ctl.len() == 2, "C08.1a: the freed slot is reusable");
    assert!(ctl.insert(14).is_err(), "C08.1a: and the limit holds again");
    storage.remove_and_add(|_| true);
    assert!(ctl.len() == 1 && storage.resources.len() == 1, "C08.1a: a resource the audio thread had not picked up yet survives this callback (it is removed at the one after)");
    storage.remove_and_add(|_| true);
    assert!(ctl.len() == 0 && storage.resources.len() == 0, "C08.1a: everything removed (the unused ring had room for all of them)");
    kani::cover!(victim == 11);
    core::mem::forget(storage); core::mem::forget(ctl);
}

// @ob id=C08.1b strength=bounded tier=quick bound="capacities 0 and 1, T = u32" fn=backend/resources.rs::{ResourceController::insert,ResourceStorage::remove_and_add}
// @req capacity 0: any create; capacity 1: create, create, callback
// @ens capacity 0 always reports the limit (no panic, callbacks are no-ops); capacity 1 admits exactly one
#[kani::proof]
#[kani::unwind(6)]
fn c08_1b_capacity_zero_and_one() {
    let (mut s0, mut c0) = ResourceStorage::<u32>::new(0);
    assert!(c0.insert(1).is_err() && c0.len() == 0 && c0.capacity() == 0, "C08.1b: capacity 0 refuses without panicking");
    s0.remove_and_add(|_| true);
    let (mut s1, mut c1) = ResourceStorage::<u32>::new(1);
    assert!(c1.insert(1).is_ok() && c1.insert(2).is_err() && c1.len() == 1, "C08.1b: capacity 1 admits exactly one");
    s1.remove_and_add(|_| false);
    assert!(s1.resources.len() == 1 && c1.insert(3).is_err(), "C08.1b: still full after pickup");
    kani::cover!(true);
    core::mem::forget(s0); core::mem::forget(c0); core::mem::forget(s1); core::mem::forget(c1);
}

// @ob id=C08.3c strength=bounded tier=quick bound="capacity 1, T = u32: create, remove at a callback, create again in the reused slot" fn=backend/resources.rs::ResourceStorage::{remove_and_add,get_mut}
// @req one slot; the first resource is removed and a second created in the same slot
// @ens the first key no longer resolves (also after the slot is reused); the second key resolves to the second value
#[kani::proof]
#[kani::unwind(6)]
fn c08_3c_stale_key_does_not_resolve() {
    let (mut storage, mut ctl) = ResourceStorage::<u32>::new(1);
    let a: u32 = kani::any();
    let b: u32 = kani::any();
    let k1 = ctl.insert(a).unwrap();
    storage.remove_and_add(|_| false);
    assert!(storage.get_mut(k1).map(|v| *v) == Some(a), "C08.3c: a live key resolves");
    storage.remove_and_add(|_| true);
    assert!(storage.get_mut(k1).is_none(), "C08.3c: a removed resource's key no longer resolves");
    assert!(ctl.len() == 0, "C08.3c: the slot is free again at the next callback");
    let k2 = ctl.insert(b).unwrap();
    storage.remove_and_add(|_| false);
    assert!(k1 != k2, "C08.3c: the reused slot gets a new generation");
    assert!(storage.get_mut(k1).is_none(), "C08.3c: an id of a removed resource never resolves to the newer resource in its slot");
    assert!(storage.get_mut(k2).map(|v| *v) == Some(b), "C08.3c: the new key resolves to the new resource");
    kani::cover!(true);
    core::mem::forget(storage); core::mem::forget(ctl);
}

// @ob id=C08.2a,C05.6a strength=bounded tier=quick bound="capacity 2, T = u32 (Default): create x2, callback, one for_each pass" fn=backend/resources.rs::SelfReferentialResourceStorage::{remove_and_add,for_each}
// @req capacity 2, two resources
// @ens `keys` lists exactly the two occupied slots; for_each visits every live resource exactly once (each clock / modulator is updated exactly once per chunk) and puts it back in its own slot
#[kani::proof]
#[kani::unwind(5)]
fn c08_2a_for_each_visits_each_once() {
    let (mut storage, mut ctl) = SelfReferentialResourceStorage::<u32>::new(2);
    let (a, b): (u32, u32) = (kani::any(), kani::any());
    kani::assume(a < 1000 && b < 1000 && a != b);
    let ka = ctl.insert(a).unwrap();
    let kb = ctl.insert(b).unwrap();
    storage.remove_and_add(|_| false);
    assert!(storage.keys.len() == 2 && storage.resources.len() == 2 && storage.keys[0] != storage.keys[1], "C08.2a: keys mirror the arena");
    let mut visits = 0;
    let mut sum: u32 = 0;
    storage.for_each(|v, _others| { visits += 1; sum += *v; *v += 1000; });
    assert!(visits == 2 && sum == a + b, "C05.6a: every live resource is visited exactly once");
    assert!(storage.resources.get(ka) == Some(&(a + 1000)) && storage.resources.get(kb) == Some(&(b + 1000)), "C08.2a: each visited resource is put back in its own slot, updated");
    kani::cover!(true);
    core::mem::forget(storage); core::mem::forget(ctl);
}

// @ob id=C08.2b strength=bounded tier=disabled bound="capacity 1, T = u32: create, callback, remove, callback, create again" fn=backend/resources.rs::SelfReferentialResourceStorage::{remove_and_add,remove_unused}
// @note disabled: passes alone (677 s) but needs > 30 GB and is killed when other harnesses run beside it; C08.2c covers removal in the self-referential storage in 60 s
// @req capacity 1
// @ens removal empties `keys` together with the arena and frees the slot for the next create; the removed value is handed to the unused ring (no panic)
#[kani::proof]
#[kani::unwind(5)]
fn c08_2b_self_referential_removal() {
    let (mut storage, mut ctl) = SelfReferentialResourceStorage::<u32>::new(1);
    let k1 = ctl.insert(7).unwrap();
    storage.remove_and_add(|_| false);
    assert!(storage.keys.len() == 1 && ctl.len() == 1 && ctl.insert(8).is_err(), "C08.2b: full");
    storage.remove_and_add(|v| *v == 7);
    assert!(storage.keys.len() == 0 && storage.resources.len() == 0 && ctl.len() == 0, "C08.2b: removal updates keys, arena and count together");
    let k2 = ctl.insert(9).unwrap();
    storage.remove_and_add(|_| false);
    assert!(storage.keys.len() == 1 && storage.resources.get(k2) == Some(&9) && storage.resources.get(k1).is_none() && k1 != k2, "C08.2b: the slot is reused under a new generation; the stale key misses");
    kani::cover!(true);
    core::mem::forget(storage); core::mem::forget(ctl);
}

// @ob id=C08.2c strength=bounded tier=quick timeout=1800 bound="capacity 2, T = u32: create x2, callback, remove both in one callback" fn=backend/resources.rs::SelfReferentialResourceStorage::{remove_and_add,remove_unused}
// @req two resources adjacent in creation order, both marked for removal before the same callback
// @ens both are removed by that one callback: keys and arena are empty and both slots are free again (prompt removal, exact count)
#[kani::proof]
#[kani::unwind(5)]
fn c08_2c_adjacent_removals_in_one_callback() {
    let (mut storage, mut ctl) = SelfReferentialResourceStorage::<u32>::new(2);
    ctl.insert(1).unwrap();
    ctl.insert(3).unwrap();
    storage.remove_and_add(|_| false);
    storage.remove_and_add(|v| *v % 2 == 1);
    assert!(storage.keys.len() == 0 && storage.resources.len() == 0, "C08.2c: every resource marked for removal is removed at the next callback");
    assert!(ctl.len() == 0, "C08.2c: and the reported count drops accordingly");
    kani::cover!(true);
    core::mem::forget(storage); core::mem::forget(ctl);
}

// @ob id=C08.1c,C01.6b strength=bounded tier=quick timeout=2400 bound="capacity 1, T = u32; the reserve-then-insert path used by send tracks, clocks, modulators and listeners (try_reserve + insert_with_key); three create / remove cycles" fn=backend/resources.rs::{ResourceController::{try_reserve,insert_with_key,remove_unused},ResourceStorage::remove_and_add}
// @req capacity 1; each cycle: reserve a key, insert with it, one callback picks it up, the next callback removes it
// @ens every cycle succeeds: the caller's insert drains the unused-resource ring, so the audio side always has room to hand a removed resource back and never panics ('unused resource producer is full' unreachable), and the slot is reusable each time
#[kani::proof]
#[kani::unwind(5)]
fn c08_1c_reserve_then_insert_path_drains_the_unused_ring() {
    let (mut storage, mut ctl) = ResourceStorage::<u32>::new(1);
    let mut cycle: u32 = 0;
    while cycle < 3 {
        let key = ctl.try_reserve();
        assert!(key.is_ok(), "C08.1c: the slot freed by the previous removal is reusable");
        ctl.insert_with_key(key.unwrap(), cycle);
        storage.remove_and_add(|_| false);
        assert!(ctl.len() == 1 && storage.resources.len() == 1, "C08.1c: picked up");
        storage.remove_and_add(|_| true);
        assert!(ctl.len() == 0 && storage.resources.len() == 0, "C08.1c: removed at the next callback, handed to the unused ring without panicking");
        cycle += 1;
    }
    kani::cover!(true);
    core::mem::forget(storage); core::mem::forget(ctl);
}
