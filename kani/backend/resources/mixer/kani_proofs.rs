//! C02.4 / C12.4 / C16.2 — the real Mixer: sub-tracks + send tracks + main track.
// @deps info,parameter,track/send,track/sub,track
use super::*;
use crate::kani_support::*;
use crate::track::kani_proofs::{mk_track, forget_rest, mk_send_track};
use crate::track::{MainTrackBuilder, SendTrackId};
use crate::Decibels;

fn storages() -> (Clocks, Modulators, Listeners) {
    let (c, a) = Clocks::new(0);
    let (m, b) = Modulators::new(0);
    let (l, d) = Listeners::new(0);
    core::mem::forget(a); core::mem::forget(b); core::mem::forget(d);
    (c, m, l)
}

// @ob id=C02.4a strength=bounded tier=disabled bound="ibs 2, 2 frames; one sub-track (one probe sound, routed to the send at 0 dB), one send track (probe effect x*0.5+1/4), main track at 0 dB without effects; dyadic sound value" fn=backend/resources/mixer.rs::Mixer::process
// @req one playing sub-track with a send route, one send track
// @ens out = main(sub_out + send_out) where send_out = effect(sub_out x route gain): the sound reaches the output once directly and once through the send; the mixer's scratch buffer is all zero on return; the send's input is consumed
#[kani::proof]
#[kani::unwind(4)]
#[kani::stub(f32::powf, powf32_model)]
fn c02_4a_mixer_signal_flow() {
    let (mut mixer, mut sub_ctl, mut send_ctl, main_handle) = Mixer::new(1, 1, 48000, 2, MainTrackBuilder::new().sound_capacity(0));
    let send_key = send_ctl.insert(mk_send_track(2, Decibels(0.0), vec![Box::new(ProbeEffect { id: 0, gain: 0.5, add: 0.25 })])).unwrap();
    let mut t = mk_track(2, Decibels(0.0), vec![], vec![(SendTrackId(send_key), Decibels(0.0))], 1, 0, false);
    let s = grid_frame();
    t.sound_ctl.insert(Box::new(ProbeSound { id: 0, value: s })).unwrap();
    sub_ctl.insert(t.track).unwrap();
    forget_rest(t.writers, t.sound_ctl, t.sub_ctl);
    mixer.on_start_processing();
    unsafe { assert!(PS_START[0] == 1, "C07.3: the sound of a track picked up in this callback is started in this callback"); }
    let (clocks, modulators, listeners) = storages();
    let mut out = [Frame::ZERO; 2];
    mixer.process(&mut out, 1.0 / 48000.0, &clocks, &modulators, &listeners);
    let mut i = 0;
    while i < 2 {
        assert!(out[i].left == s.left + (s.left * 0.5 + 0.25) && out[i].right == s.right + s.right * 0.5, "C02.4a: output = direct path + send path (route x send effects), nothing else");
        i += 1;
    }
    assert!(mixer.temp_buffer[0].left == 0.0 && mixer.temp_buffer[1].left == 0.0 && mixer.temp_buffer[0].right == 0.0 && mixer.temp_buffer[1].right == 0.0, "C02.4a: nothing is left in the mixer's scratch buffer");
    unsafe { assert!(PS_CALLS[0] == 1 && PS_FRAMES[0] == 2 && PE_CALLS[0] == 1 && PE_FRAMES[0] == 2, "C02.4a: the sound and the send effect are driven exactly once for every frame"); }
    kani::cover!(s.left != 0.0);
    core::mem::forget(mixer); core::mem::forget(sub_ctl); core::mem::forget(send_ctl); core::mem::forget(main_handle);
    core::mem::forget(clocks); core::mem::forget(modulators); core::mem::forget(listeners);
}

// @ob id=C12.4a,C08.5a strength=bounded tier=disabled bound="sub-track capacity 1; one track with one probe sound; handle dropped (removal flag set) before or after the first callback" fn=backend/resources/mixer.rs::Mixer::on_start_processing
// @req a sub-track whose handle is dropped
// @ens it is removed at the next callback (the one after, if it had not been picked up yet) and then contributes exact silence; its slot is reusable; the removed track is not destroyed on the audio side
#[kani::proof]
#[kani::unwind(4)]
#[kani::stub(f32::powf, powf32_model)]
fn c12_4a_dropped_track_is_removed() {
    let (mut mixer, mut sub_ctl, send_ctl, main_handle) = Mixer::new(1, 0, 48000, 1, MainTrackBuilder::new().sound_capacity(0));
    let mut t = mk_track(1, Decibels(0.0), vec![], vec![], 1, 0, false);
    t.sound_ctl.insert(Box::new(ProbeSound { id: 0, value: Frame::new(0.5, 0.5) })).unwrap();
    let shared = t.track.shared();
    sub_ctl.insert(t.track).unwrap();
    forget_rest(t.writers, t.sound_ctl, t.sub_ctl);
    let early: bool = kani::any();
    if early { shared.mark_for_removal(); }
    mixer.on_start_processing(); // picks the track up
    let (clocks, modulators, listeners) = storages();
    let mut out = [Frame::ZERO; 1];
    mixer.process(&mut out, 1.0 / 48000.0, &clocks, &modulators, &listeners);
    assert!(out[0].left == 0.5, "C12.4a: a track that was only queued is inserted first (and still heard in this callback)");
    assert!(sub_ctl.len() == 1, "C12.4a: not removed before it was picked up");
    if !early { shared.mark_for_removal(); }
    mixer.on_start_processing();
    assert!(sub_ctl.len() == 0, "C12.4a: a dropped track is removed at the next callback");
    let mut out2 = [Frame::ZERO; 1];
    mixer.process(&mut out2, 1.0 / 48000.0, &clocks, &modulators, &listeners);
    assert!(out2[0].left == 0.0 && out2[0].right == 0.0, "C02.4: a removed branch contributes exact silence");
    unsafe { assert!(PS_DROPS[0] == 0, "C08.4: the audio side did not destroy the track's sound"); }
    kani::cover!(early);
    kani::cover!(!early);
    core::mem::forget(mixer); core::mem::forget(sub_ctl); core::mem::forget(send_ctl); core::mem::forget(main_handle);
    core::mem::forget(clocks); core::mem::forget(modulators); core::mem::forget(listeners);
}

// @ob id=C16.2a strength=bounded tier=disabled bound="one main-track effect, one sub-track with one effect and a nested child with one effect, one send track with one effect (probe effects recording the rate they are given)" fn=backend/resources/mixer.rs::Mixer::{new,on_change_sample_rate}
// @req tracks already owned by the audio thread; sample rate changes from 48000 to 44100
// @ens every effect on the main track, the sub-track, its nested child and the send track has been told the new rate
#[kani::proof]
#[kani::unwind(4)]
fn c16_2a_sample_rate_fan_out() {
    let (mut mixer, mut sub_ctl, mut send_ctl, main_handle) = Mixer::new(1, 1, 48000, 1, MainTrackBuilder::new().sound_capacity(0).with_built_effect(Box::new(ProbeEffect { id: 0, gain: 1.0, add: 0.0 })));
    unsafe { assert!(PE_RATE[0] == 48000, "C16.2a: main-track effects are initialised with the device rate"); }
    let mut send = mk_send_track(1, Decibels(0.0), vec![Box::new(ProbeEffect { id: 1, gain: 1.0, add: 0.0 })]);
    send.init_effects(48000);
    send_ctl.insert(send).unwrap();
    let mut parent = mk_track(1, Decibels(0.0), vec![Box::new(ProbeEffect { id: 2, gain: 1.0, add: 0.0 })], vec![], 0, 1, false);
    let child = mk_track(1, Decibels(0.0), vec![Box::new(ProbeEffect { id: 3, gain: 1.0, add: 0.0 })], vec![], 0, 0, false);
    parent.sub_ctl.insert(child.track).unwrap();
    forget_rest(child.writers, child.sound_ctl, child.sub_ctl);
    parent.track.init_effects(48000);
    sub_ctl.insert(parent.track).unwrap();
    forget_rest(parent.writers, parent.sound_ctl, parent.sub_ctl);
    mixer.on_start_processing();
    mixer.on_change_sample_rate(44100);
    unsafe {
        assert!(PE_RATE[0] == 44100, "C16.2a: main track effect sees the new rate");
        assert!(PE_RATE[1] == 44100, "C16.2a: send track effect sees the new rate");
        assert!(PE_RATE[2] == 44100, "C16.2a: sub-track effect sees the new rate");
        assert!(PE_RATE[3] == 44100, "C16.2a: nested sub-track effect sees the new rate");
    }
    kani::cover!(true);
    core::mem::forget(mixer); core::mem::forget(sub_ctl); core::mem::forget(send_ctl); core::mem::forget(main_handle);
}

// @ob id=C02.4b,C11.4a strength=bounded tier=thorough timeout=3600 bound="ibs 2, a callback remainder of 1 frame; no sub-tracks; one send track with one probe effect whose input buffer is pre-loaded with two grid frames" fn=backend/resources/mixer.rs::Mixer::process
// @req a short (remainder) chunk: out.len() = 1 < internal buffer size
// @ens the send track's effects are asked for exactly out.len() frames (never for frames that are not rendered); out[0] is the effect of the first input frame; the mixer's scratch buffer is all zero on return
#[kani::proof]
#[kani::unwind(3)]
#[kani::stub(f32::powf, powf32_model)]
fn c02_4b_send_tracks_get_chunk_sized_slices() {
    let (mut mixer, sub_ctl, send_ctl, main_handle) = Mixer::new(0, 1, 48000, 2, MainTrackBuilder::new().sound_capacity(0));
    let mut send = mk_send_track(2, Decibels(0.0), vec![Box::new(ProbeEffect { id: 0, gain: 0.5, add: 0.25 })]);
    let inp = [grid_frame(), grid_frame()];
    send.add_input(&inp, Decibels(0.0));
    let _ = mixer.send_tracks.resources.insert(send);
    let (clocks, modulators, listeners) = storages();
    let mut out = [Frame::ZERO; 1];
    mixer.process(&mut out, 1.0 / 48000.0, &clocks, &modulators, &listeners);
    unsafe { assert!(PE_CALLS[0] == 1 && PE_FRAMES[0] == 1, "C02.4b: every effect is asked for every output frame exactly once, in slices no longer than the chunk"); }
    assert!(out[0].left == inp[0].left * 0.5 + 0.25 && out[0].right == inp[0].right * 0.5, "C02.4b: the send path reaches the output");
    assert!(mixer.temp_buffer[0].left == 0.0 && mixer.temp_buffer[1].left == 0.0 && mixer.temp_buffer[0].right == 0.0 && mixer.temp_buffer[1].right == 0.0, "C02.4b: nothing is left in the mixer's scratch buffer");
    kani::cover!(inp[0].left != 0.0);
    core::mem::forget(mixer); core::mem::forget(sub_ctl); core::mem::forget(send_ctl); core::mem::forget(main_handle);
    core::mem::forget(clocks); core::mem::forget(modulators); core::mem::forget(listeners);
}
