//! C19.3 — From<Semitones> for PlaybackRate.
use super::*;
use crate::kani_support::*;

// @ob id=C19.3 strength=axioms axioms=EXP2 tier=quick fn=semitones.rs::<PlaybackRate as From<Semitones>>::from
// @req a, b finite f64 with a <= b, |a|,|b| <= 1e4
// @ens 12 semitones => rate exactly 2.0; 0 => exactly 1.0; monotone: rate(a) <= rate(b); rate > 0
#[kani::proof]
#[kani::unwind(8)]
#[kani::stub(f64::powf, powf64_model)]
fn c19_3_semitones_to_rate() {
    let r12: PlaybackRate = Semitones(12.0).into();
    assert!(r12.0 == 2.0, "C19.3: twelve semitones double the playback rate");
    let r0: PlaybackRate = Semitones(0.0).into();
    assert!(r0.0 == 1.0, "C19.3: zero semitones leave the rate unchanged");
    let a = any_f64_in(-1.0e4, 1.0e4);
    let b = any_f64_in(-1.0e4, 1.0e4);
    kani::assume(a <= b);
    let ra: PlaybackRate = Semitones(a).into();
    let rb: PlaybackRate = Semitones(b).into();
    assert!(ra.0 <= rb.0, "C19.3: semitone-to-rate conversion is monotone");
    assert!(ra.0 > 0.0 && ra.0.is_finite(), "C19.3: rate is positive and finite");
    if a >= 0.0 { assert!(ra.0 >= 1.0, "C19.3: non-negative semitones never slow down"); }
    kani::cover!(a < 0.0 && b > 0.0);
}
