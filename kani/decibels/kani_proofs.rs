//! C19.1 — Decibels::as_amplitude over every f32 bit pattern.
use super::*;
use crate::kani_support::*;

// @ob id=C19.1a strength=complete tier=quick fn=decibels.rs::Decibels::as_amplitude
// @req any f32 bit pattern d (including NaN, ±inf, ±0)
// @ens d == ±0.0 => result == 1.0 exactly; d <= -60 => result == 0.0 exactly; never panics
#[kani::proof]
#[kani::unwind(8)]
#[kani::stub(f32::powf, powf32_model)]
fn c19_1a_special_cases() {
    let d: f32 = kani::any();
    let a = Decibels(d).as_amplitude();
    if d == 0.0 {
        assert!(a == 1.0, "C19.1a: 0 dB maps to exactly 1.0");
    }
    if d <= -60.0 {
        assert!(a == 0.0 && a.is_sign_positive(), "C19.1a: -60 dB or less maps to exactly 0.0");
    }
    kani::cover!(d == 0.0);
    kani::cover!(d <= -60.0);
    kani::cover!(d.is_nan());
    kani::cover!(d > -60.0 && d != 0.0);
}

// @ob id=C19.1b strength=axioms axioms=EXP10 tier=quick fn=decibels.rs::Decibels::as_amplitude
// @req d finite, d > -60, d != 0
// @ens result == 10^(d/20) (the value libm powf returns for base 10 and exponent d/20, single precision)
#[kani::proof]
#[kani::unwind(8)]
#[kani::stub(f32::powf, powf32_model)]
fn c19_1b_agrees_with_pow10() {
    let d: f32 = kani::any();
    kani::assume(d.is_finite() && d > -60.0 && d != 0.0);
    let a = Decibels(d).as_amplitude();
    let want = powf32_model(10.0, d / 20.0);
    assert!(a.to_bits() == want.to_bits(), "C19.1b: as_amplitude(d) == 10^(d/20)");
    unsafe { assert!(LIBM_CALLS == 2, "C19.1b: exactly one powf call in as_amplitude"); }
    kani::cover!(d > 0.0);
    kani::cover!(d < 0.0);
}

// @ob id=C19.1c strength=axioms axioms=EXP10 tier=quick fn=decibels.rs::Decibels::as_amplitude
// @req a, b any non-NaN f32 with a <= b
// @ens as_amplitude(a) <= as_amplitude(b) (monotone over the whole line, across the -60 dB and 0 dB special cases); result in [0, +inf], result <= 1 for d <= 0, >= 1 for d >= 0
#[kani::proof]
#[kani::unwind(8)]
#[kani::stub(f32::powf, powf32_model)]
fn c19_1c_monotone() {
    let a: f32 = kani::any();
    let b: f32 = kani::any();
    kani::assume(!a.is_nan() && !b.is_nan() && a <= b);
    let x = Decibels(a).as_amplitude();
    let y = Decibels(b).as_amplitude();
    assert!(x <= y, "C19.1c: decibel-to-amplitude conversion is monotone");
    assert!(x >= 0.0, "C19.1c: amplitude is non-negative");
    if a <= 0.0 { assert!(x <= 1.0, "C19.1c: attenuation never amplifies"); }
    if a >= 0.0 { assert!(x >= 1.0, "C19.1c: gain never attenuates"); }
    kani::cover!(a < -60.0 && b > -60.0 && b < 0.0);
    kani::cover!(a > -60.0 && a < 0.0 && b > 0.0);
    kani::cover!(a > -60.0 && a < 0.0 && b == 0.0);
    kani::cover!(a > -60.0 && b < 0.0 && a < b);
}

// @ob id=C19.1d strength=axioms axioms=EXP10 tier=quick fn=decibels.rs::Decibels::as_amplitude
// @req d finite and d <= 120 (documented useful range)
// @ens result is finite
#[kani::proof]
#[kani::unwind(8)]
#[kani::stub(f32::powf, powf32_model)]
fn c19_1d_finite_in_range() {
    let d: f32 = kani::any();
    kani::assume(d.is_finite() && d <= 120.0);
    let a = Decibels(d).as_amplitude();
    assert!(a.is_finite(), "C19.1d: finite amplitude for d <= 120 dB");
    kani::cover!(d > 100.0);
}
