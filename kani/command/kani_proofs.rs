//! C07.1 — CommandWriter / CommandReader over the real triple buffer (sequential histories).
use super::*;

// @ob id=C07.1 strength=bounded tier=quick bound="single thread; every sequence of <= 4 operations (write v / read) on one writer-reader pair" fn=command.rs::{CommandWriter::write,CommandReader::read}
// @req any sequence of up to 4 write(v)/read() operations, values (x, x) pairs of arbitrary u64
// @ens read() returns Some(last value written since the previous read) exactly once and None otherwise; a burst of writes delivers only the last; values are never torn (both halves equal); a write before the first read is not lost
#[kani::proof]
#[kani::unwind(6)]
fn c07_1_last_write_wins_exactly_once() {
    let (mut w, mut r) = command_writer_and_reader::<(u64, u64)>();
    let mut pending: Option<u64> = None;
    let mut i = 0;
    while i < 4 {
        if kani::any() {
            let v: u64 = kani::any();
            w.write((v, v));
            pending = Some(v);
        } else {
            let got = r.read();
            match pending {
                Some(v) => assert!(got == Some((v, v)), "C07.1: a read delivers the last write since the previous read, untorn"),
                None => assert!(got.is_none(), "C07.1: nothing new => None (no command is applied twice)"),
            }
            pending = None;
        }
        i += 1;
    }
    kani::cover!(pending.is_some());
    core::mem::forget(w);
    core::mem::forget(r);
}
