//! C06.5 — Tweenable::interpolate for every tweenable type.
use super::*;
use crate::kani_support::*;
use crate::{Decibels, Panning, PlaybackRate, Mix, Semitones};
use crate::clock::ClockSpeed;

// @ob id=C06.5a strength=complete tier=quick fn=tween/tweenable.rs::<{Decibels,Panning,Mix} as Tweenable>::interpolate
// @req any f32 endpoints and any amount; <f32 as Tweenable>::interpolate replaced by its recording stub
// @ens each wrapper type calls the f32 formula exactly once with its own two inner values and the same amount, and wraps the result unchanged
#[kani::proof]
#[kani::unwind(4)]
#[kani::stub(<f32 as Tweenable>::interpolate, interpolate_f32_rec)]
fn c06_5a_f32_wrappers_delegate() {
    let a: f32 = kani::any();
    let b: f32 = kani::any();
    let t: f64 = kani::any();
    let r = match kani::any::<u8>() % 3 {
        0 => <Decibels as Tweenable>::interpolate(Decibels(a), Decibels(b), t).0,
        1 => <Panning as Tweenable>::interpolate(Panning(a), Panning(b), t).0,
        _ => <Mix as Tweenable>::interpolate(Mix(a), Mix(b), t).0,
    };
    unsafe {
        assert!(IP32_N == 1 && IP32_A[0].to_bits() == a.to_bits() && IP32_B[0].to_bits() == b.to_bits() && IP32_T[0].to_bits() == t.to_bits(), "C06.5a: delegates to the scalar formula with the same arguments");
        assert!(r.to_bits() == IP32_RET[0].to_bits(), "C06.5a: and returns its result");
    }
    kani::cover!(true);
}

// @ob id=C06.5e strength=complete tier=quick fn=tween/tweenable.rs::<{PlaybackRate,Semitones} as Tweenable>::interpolate
// @req any f64 endpoints and any amount; <f64 as Tweenable>::interpolate replaced by its recording stub
// @ens each wrapper type calls the f64 formula exactly once with its own inner values and the same amount, and wraps the result unchanged
#[kani::proof]
#[kani::unwind(4)]
#[kani::stub(<f64 as Tweenable>::interpolate, interpolate_f64_rec)]
fn c06_5e_f64_wrappers_delegate() {
    let c: f64 = kani::any();
    let d: f64 = kani::any();
    let t: f64 = kani::any();
    let r = if kani::any() { <PlaybackRate as Tweenable>::interpolate(PlaybackRate(c), PlaybackRate(d), t).0 } else { <Semitones as Tweenable>::interpolate(Semitones(c), Semitones(d), t).0 };
    unsafe {
        assert!(IP_N == 1 && IP_A[0].to_bits() == c.to_bits() && IP_B[0].to_bits() == d.to_bits() && IP_T[0].to_bits() == t.to_bits(), "C06.5e: delegates to the scalar formula with the same arguments");
        assert!(r.to_bits() == IP_RET[0].to_bits(), "C06.5e: and returns its result");
    }
    kani::cover!(true);
}

// @ob id=C06.5f strength=complete tier=quick fn=tween/tweenable.rs::<{f32,f64} as Tweenable>::interpolate
// @req finite endpoints with |.| <= 1e30
// @ens amount 0 returns the start value exactly (a tween that has not progressed has not moved); amount 1 lands within one rounding step of the target: for |a|,|b| <= 1e6, |result - b| <= 0.25 (f32) / 4.7e-10 (f64)
#[kani::proof]
#[kani::unwind(4)]
fn c06_5f_scalar_endpoints() {
    let a = any_f32_in(-1.0e30, 1.0e30);
    let b = any_f32_in(-1.0e30, 1.0e30);
    assert!(<f32 as Tweenable>::interpolate(a, b, 0.0) == a, "C06.5f: f32 amount 0");
    let c = any_f64_in(-1.0e30, 1.0e30);
    let d = any_f64_in(-1.0e30, 1.0e30);
    assert!(<f64 as Tweenable>::interpolate(c, d, 0.0) == c, "C06.5f: f64 amount 0");
    if a.abs() <= 1.0e6 && b.abs() <= 1.0e6 { assert!((<f32 as Tweenable>::interpolate(a, b, 1.0) - b).abs() <= 0.25, "C06.5f: f32 amount 1"); }
    if c.abs() <= 1.0e6 && d.abs() <= 1.0e6 { assert!((<f64 as Tweenable>::interpolate(c, d, 1.0) - d).abs() <= 4.7e-10, "C06.5f: f64 amount 1"); }
    kani::cover!(a < b);
}

// @ob id=C06.5b strength=complete tier=quick fn=tween/tweenable.rs::<{f32,f64} as Tweenable>::interpolate
// @req a == b (any finite value, |.| <= 1e6), any amount in [0,1]
// @ens the result is exactly that value (a tween between equal values never moves)
#[kani::proof]
#[kani::unwind(4)]
fn c06_5b_constant_tween() {
    let a = any_f64_in(-1.0e6, 1.0e6);
    let t = any_f64_in(0.0, 1.0);
    assert!(<f64 as Tweenable>::interpolate(a, a, t) == a, "C06.5b: f64");
    let x = any_f32_in(-1.0e6, 1.0e6);
    assert!(<f32 as Tweenable>::interpolate(x, x, t) == x, "C06.5b: f32");
    kani::cover!(t > 0.0 && t < 1.0);
}

// @ob id=C06.5c strength=bounded tier=disabled bound="a, b, amount restricted to 4 significant mantissa bits" fn=tween/tweenable.rs::<f64 as Tweenable>::interpolate
// @req |a|,|b| <= 1e6, amount in [0,1]
// @ens the value never leaves [min(a,b), max(a,b)] (widened by 2.4e-10) and is monotone in the amount
#[kani::proof]
#[kani::unwind(4)]
fn c06_5c_range_f64() {
    let m = (1u64 << 48) - 1;
    let a = any_f64_in(-1.0e6, 1.0e6);
    let b = any_f64_in(-1.0e6, 1.0e6);
    let t = any_f64_in(0.0, 1.0);
    let u = any_f64_in(0.0, 1.0);
    kani::assume(a.to_bits() & m == 0 && b.to_bits() & m == 0 && t.to_bits() & m == 0 && u.to_bits() & m == 0);
    let v = <f64 as Tweenable>::interpolate(a, b, t);
    let (lo, hi) = if a < b { (a, b) } else { (b, a) };
    assert!(v >= lo - 2.4e-10 && v <= hi + 2.4e-10, "C06.5c: the value never leaves the interval between start and target");
    let w = <f64 as Tweenable>::interpolate(a, b, u);
    if t <= u { assert!(if a <= b { v <= w } else { v >= w }, "C06.5c: monotone in the amount"); }
    kani::cover!(a < b && t < u);
}

// @ob id=C06.5d strength=complete tier=quick fn=clock/clock_speed.rs::<ClockSpeed as Tweenable>::interpolate
// @req a, b clock speeds in any units with values in [1e-3, 1e6]; f64::interpolate replaced by its recording stub
// @ens the result carries the unit of the target b; it is interpolate(a's speed expressed in b's unit (a's own value when the units agree; the unit conversion itself is C19.4), b's value, amount): one call
#[kani::proof]
#[kani::unwind(4)]
#[kani::stub(<f64 as Tweenable>::interpolate, interpolate_f64_rec)]
fn c06_5d_clock_speed() {
    let va = any_f64_in(1.0e-3, 1.0e6);
    let vb = any_f64_in(1.0e-3, 1.0e6);
    let mk = |k: u8, v: f64| match k % 3 { 0 => ClockSpeed::SecondsPerTick(v), 1 => ClockSpeed::TicksPerSecond(v), _ => ClockSpeed::TicksPerMinute(v) };
    let (ka, kb): (u8, u8) = (kani::any(), kani::any());
    let (a, b) = (mk(ka, va), mk(kb, vb));
    let amount: f64 = kani::any();
    let z = <ClockSpeed as Tweenable>::interpolate(a, b, amount);
    unsafe {
        assert!(IP_N == 1 && IP_B[0].to_bits() == vb.to_bits() && IP_T[0].to_bits() == amount.to_bits(), "C06.5d: interpolates towards b's value by the given amount");
        assert!(IP_A[0] > 0.0 && IP_A[0].is_finite(), "C06.5d: from a's speed converted to a positive finite value");
        if ka % 3 == kb % 3 { assert!(IP_A[0].to_bits() == va.to_bits(), "C06.5d: same unit: from a's own value"); }
        match b {
            ClockSpeed::SecondsPerTick(_) => assert!(matches!(z, ClockSpeed::SecondsPerTick(x) if x.to_bits() == IP_RET[0].to_bits()), "C06.5d: in seconds per tick"),
            ClockSpeed::TicksPerSecond(_) => assert!(matches!(z, ClockSpeed::TicksPerSecond(x) if x.to_bits() == IP_RET[0].to_bits()), "C06.5d: in ticks per second"),
            ClockSpeed::TicksPerMinute(_) => assert!(matches!(z, ClockSpeed::TicksPerMinute(x) if x.to_bits() == IP_RET[0].to_bits()), "C06.5d: in ticks per minute"),
        }
    }
    kani::cover!(ka % 3 != kb % 3);
}
