//! C06.5 — Tweenable::interpolate for every tweenable type.
use super::*;
use crate::kani_support::*;
use crate::{Decibels, Panning, PlaybackRate, Mix, Semitones};
use crate::clock::ClockSpeed;

// @ob id=C06.5a strength=complete tier=quick fn=tween/tweenable.rs::<{f32,f64,Decibels,Panning,PlaybackRate,Mix,Semitones} as Tweenable>::interpolate
// @req a, b finite with |.| <= 1e6
// @ens amount 0 returns a exactly; amount 1 returns b to rounding (relative 1e-6 for f32 types, 1e-15 for f64 types); wrapper types delegate to the scalar formula bit-for-bit
#[kani::proof]
#[kani::unwind(4)]
fn c06_5a_endpoints_scalar_types() {
    let a = any_f32_in(-1.0e6, 1.0e6);
    let b = any_f32_in(-1.0e6, 1.0e6);
    assert!(<f32 as Tweenable>::interpolate(a, b, 0.0) == a, "C06.5a: f32 amount 0");
    let e = <f32 as Tweenable>::interpolate(a, b, 1.0);
    assert!((e - b).abs() <= 0.25, "C06.5a: f32 amount 1 (|a|,|b| <= 1e6: one rounding of b - a and one of the sum)");
    assert!(<Decibels as Tweenable>::interpolate(Decibels(a), Decibels(b), 1.0).0.to_bits() == e.to_bits(), "C06.5a: Decibels delegates");
    assert!(<Panning as Tweenable>::interpolate(Panning(a), Panning(b), 1.0).0.to_bits() == e.to_bits(), "C06.5a: Panning delegates");
    assert!(<Mix as Tweenable>::interpolate(Mix(a), Mix(b), 1.0).0.to_bits() == e.to_bits(), "C06.5a: Mix delegates");
    assert!(<Decibels as Tweenable>::interpolate(Decibels(a), Decibels(b), 0.0).0 == a, "C06.5a: Decibels amount 0");
    let c = any_f64_in(-1.0e6, 1.0e6);
    let d = any_f64_in(-1.0e6, 1.0e6);
    assert!(<f64 as Tweenable>::interpolate(c, d, 0.0) == c, "C06.5a: f64 amount 0");
    let g = <f64 as Tweenable>::interpolate(c, d, 1.0);
    assert!((g - d).abs() <= 4.7e-10, "C06.5a: f64 amount 1");
    assert!(<PlaybackRate as Tweenable>::interpolate(PlaybackRate(c), PlaybackRate(d), 1.0).0.to_bits() == g.to_bits(), "C06.5a: PlaybackRate delegates");
    assert!(<Semitones as Tweenable>::interpolate(Semitones(c), Semitones(d), 1.0).0.to_bits() == g.to_bits(), "C06.5a: Semitones delegates");
    kani::cover!(a < b);
}

// @ob id=C06.5b strength=complete tier=quick fn=tween/tweenable.rs::<{f32,f64} as Tweenable>::interpolate
// @req a == b (any finite value, |.| <= 1e6), any amount in [0,1]
// @ens the result is exactly that value (a tween between equal values never moves)
#[kani::proof]
#[kani::unwind(4)]
fn c06_5b_constant_tween() {
    let a = any_f64_in(-1.0e6, 1.0e6);
    let t = any_f64_in(0.0, 1.0);
    assert!(<f64 as Tweenable>::interpolate(a, a, t) == a, "C06.5b: f64");
    let x = any_f32_in(-1.0e6, 1.0e6);
    assert!(<f32 as Tweenable>::interpolate(x, x, t) == x, "C06.5b: f32");
    kani::cover!(t > 0.0 && t < 1.0);
}

// @ob id=C06.5c strength=bounded tier=quick bound="a, b, amount restricted to 5 significant mantissa bits" fn=tween/tweenable.rs::<f64 as Tweenable>::interpolate
// @req |a|,|b| <= 1e6, amount in [0,1]
// @ens the value never leaves [min(a,b), max(a,b)] (widened by 2.4e-10) and is monotone in the amount
#[kani::proof]
#[kani::unwind(4)]
fn c06_5c_range_f64() {
    let m = (1u64 << 47) - 1;
    let a = any_f64_in(-1.0e6, 1.0e6);
    let b = any_f64_in(-1.0e6, 1.0e6);
    let t = any_f64_in(0.0, 1.0);
    let u = any_f64_in(0.0, 1.0);
    kani::assume(a.to_bits() & m == 0 && b.to_bits() & m == 0 && t.to_bits() & m == 0 && u.to_bits() & m == 0);
    let v = <f64 as Tweenable>::interpolate(a, b, t);
    let (lo, hi) = if a < b { (a, b) } else { (b, a) };
    assert!(v >= lo - 2.4e-10 && v <= hi + 2.4e-10, "C06.5c: the value never leaves the interval between start and target");
    let w = <f64 as Tweenable>::interpolate(a, b, u);
    if t <= u { assert!(if a <= b { v <= w } else { v >= w }, "C06.5c: monotone in the amount"); }
    kani::cover!(a < b && t < u);
}

// @ob id=C06.5d strength=complete tier=quick fn=clock/clock_speed.rs::<ClockSpeed as Tweenable>::interpolate
// @req a, b clock speeds in any units with values in [1e-3, 1e6]
// @ens the result carries the unit of the target b; amount 1 gives b's value to rounding; amount 0 gives a converted to b's unit exactly
#[kani::proof]
#[kani::unwind(4)]
fn c06_5d_clock_speed() {
    let va = any_f64_in(1.0e-3, 1.0e6);
    let vb = any_f64_in(1.0e-3, 1.0e6);
    let mk = |k: u8, v: f64| match k % 3 { 0 => ClockSpeed::SecondsPerTick(v), 1 => ClockSpeed::TicksPerSecond(v), _ => ClockSpeed::TicksPerMinute(v) };
    let (ka, kb): (u8, u8) = (kani::any(), kani::any());
    let (a, b) = (mk(ka, va), mk(kb, vb));
    let z = <ClockSpeed as Tweenable>::interpolate(a, b, 0.0);
    let o = <ClockSpeed as Tweenable>::interpolate(a, b, 1.0);
    match b {
        ClockSpeed::SecondsPerTick(v) => { assert!(matches!(z, ClockSpeed::SecondsPerTick(x) if x == a.as_seconds_per_tick()), "C06.5d: amount 0"); assert!(matches!(o, ClockSpeed::SecondsPerTick(x) if (x - v).abs() <= 1.0e-9 * (1.0 + v + a.as_seconds_per_tick())), "C06.5d: amount 1"); }
        ClockSpeed::TicksPerSecond(v) => { assert!(matches!(z, ClockSpeed::TicksPerSecond(x) if x == a.as_ticks_per_second()), "C06.5d: amount 0"); assert!(matches!(o, ClockSpeed::TicksPerSecond(x) if (x - v).abs() <= 1.0e-9 * (1.0 + v + a.as_ticks_per_second())), "C06.5d: amount 1"); }
        ClockSpeed::TicksPerMinute(v) => { assert!(matches!(z, ClockSpeed::TicksPerMinute(x) if x == a.as_ticks_per_minute()), "C06.5d: amount 0"); assert!(matches!(o, ClockSpeed::TicksPerMinute(x) if (x - v).abs() <= 1.0e-9 * (1.0 + v + a.as_ticks_per_minute())), "C06.5d: amount 1"); }
    }
    kani::cover!(ka % 3 != kb % 3);
}
