//! C19.7 / C06.4 — Easing::apply; Tween::value.
use super::*;
use crate::kani_support::*;

// @ob id=C19.7a,C06.4a strength=axioms axioms=POW tier=quick fn=tween.rs::Easing::apply
// @req every built-in easing kind, integer powers 1..=64, float powers in [1e-3, 64]
// @ens apply(0) == 0 exactly and apply(1) == 1 exactly
#[kani::proof]
#[kani::unwind(8)]
#[kani::stub(f64::powf, powf64_model)]
#[kani::stub(f64::powi, powi64_model)]
fn c19_7a_endpoints() {
    let e = any_easing();
    assert!(e.apply(0.0) == 0.0, "C19.7a: every easing maps 0 to 0");
    assert!(e.apply(1.0) == 1.0, "C19.7a: every easing maps 1 to 1");
    kani::cover!(matches!(e, Easing::InOutPowf(_)));
    kani::cover!(matches!(e, Easing::OutPowi(_)));
}

// @ob id=C19.7b,C06.4b strength=axioms axioms=POW tier=quick fn=tween.rs::Easing::apply
// @req as above, x in [0,1]
// @ens apply(x) in [0,1]
#[kani::proof]
#[kani::unwind(8)]
#[kani::stub(f64::powf, powf64_model)]
#[kani::stub(f64::powi, powi64_model)]
fn c19_7b_range() {
    let e = any_easing();
    let x = any_f64_in(0.0, 1.0);
    let y = e.apply(x);
    assert!(y >= 0.0 && y <= 1.0, "C19.7b: easing output stays in [0,1] on [0,1]");
    kani::cover!(x > 0.5 && matches!(e, Easing::InOutPowi(_)));
    kani::cover!(x < 0.5 && matches!(e, Easing::InOutPowf(_)));
}

// @ob id=C19.7c,C06.4c strength=axioms axioms=POW tier=quick timeout=900 fn=tween.rs::Easing::apply
// @req as above, 0 <= x1 <= x2 <= 1
// @ens apply(x1) <= apply(x2) (monotone on [0,1], including across the midpoint of the in-out curves)
#[kani::proof]
#[kani::unwind(8)]
#[kani::stub(f64::powf, powf64_model)]
#[kani::stub(f64::powi, powi64_model)]
fn c19_7c_monotone() {
    let e = any_easing();
    let x1 = any_f64_in(0.0, 1.0);
    let x2 = any_f64_in(0.0, 1.0);
    kani::assume(x1 <= x2);
    let y1 = e.apply(x1);
    let y2 = e.apply(x2);
    assert!(y1 <= y2, "C19.7c: easing is monotone on [0,1]");
    kani::cover!(x1 < 0.5 && x2 > 0.5 && matches!(e, Easing::InOutPowf(_)));
    kani::cover!(x1 < x2 && matches!(e, Easing::OutPowi(_)));
}

// @ob id=C06.4d strength=complete tier=quick fn=tween.rs::Easing::apply
// @req Linear easing, any f64 bit pattern
// @ens apply(x) is bit-identical to x
#[kani::proof]
#[kani::unwind(8)]
fn c06_4d_linear_identity() {
    let x: f64 = kani::any();
    assert!(Easing::Linear.apply(x).to_bits() == x.to_bits(), "C06.4d: linear easing is the identity");
    kani::cover!(true);
}
