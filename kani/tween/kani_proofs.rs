//! C19.7 / C06.4 — Easing::apply; Tween::value.
use super::*;
use crate::kani_support::*;

// @ob id=C19.7a,C06.4a strength=axioms axioms=POW tier=quick fn=tween.rs::Easing::apply
// @req every built-in easing kind, integer powers 1..=64, float powers in [1e-3, 64]
// @ens apply(0) == 0 exactly and apply(1) == 1 exactly
#[kani::proof]
#[kani::unwind(8)]
#[kani::stub(f64::powf, powf64_model)]
#[kani::stub(f64::powi, powi64_model)]
fn c19_7a_endpoints() {
    let e = any_easing();
    assert!(e.apply(0.0) == 0.0, "C19.7a: every easing maps 0 to 0");
    assert!(e.apply(1.0) == 1.0, "C19.7a: every easing maps 1 to 1");
    kani::cover!(matches!(e, Easing::InOutPowf(_)));
    kani::cover!(matches!(e, Easing::OutPowi(_)));
}

// @ob id=C19.7b,C06.4b strength=axioms axioms=POW tier=quick fn=tween.rs::Easing::apply
// @req as above, x in [0,1]
// @ens apply(x) in [0,1]
#[kani::proof]
#[kani::unwind(8)]
#[kani::stub(f64::powf, powf64_model)]
#[kani::stub(f64::powi, powi64_model)]
fn c19_7b_range() {
    let e = any_easing();
    let x = any_f64_in(0.0, 1.0);
    let y = e.apply(x);
    assert!(y >= 0.0 && y <= 1.0, "C19.7b: easing output stays in [0,1] on [0,1]");
    kani::cover!(x > 0.5 && matches!(e, Easing::InOutPowi(_)));
    kani::cover!(x < 0.5 && matches!(e, Easing::InOutPowf(_)));
}

fn simple_easing() -> Easing {
    let pi: i32 = kani::any();
    kani::assume(pi >= 1 && pi <= 64);
    let pf = any_f64_in(1.0e-3, 64.0);
    match kani::any::<u8>() % 5 { 0 => Easing::Linear, 1 => Easing::InPowi(pi), 2 => Easing::OutPowi(pi), 3 => Easing::InPowf(pf), _ => Easing::OutPowf(pf) }
}

fn inout_easing() -> Easing {
    let pi: i32 = kani::any();
    kani::assume(pi >= 1 && pi <= 64);
    let pf = any_f64_in(1.0e-3, 64.0);
    if kani::any() { Easing::InOutPowi(pi) } else { Easing::InOutPowf(pf) }
}

// @ob id=C19.7c,C06.4c strength=axioms axioms=POW tier=quick fn=tween.rs::Easing::apply
// @req Linear, InPowi, OutPowi, InPowf, OutPowf with positive powers; 0 <= x1 <= x2 <= 1
// @ens apply(x1) <= apply(x2) (monotone on [0,1])
#[kani::proof]
#[kani::unwind(8)]
#[kani::stub(f64::powf, powf64_model)]
#[kani::stub(f64::powi, powi64_model)]
fn c19_7c_monotone_in_out() {
    let e = simple_easing();
    let x1 = any_f64_in(0.0, 1.0);
    let x2 = any_f64_in(0.0, 1.0);
    kani::assume(x1 <= x2);
    assert!(e.apply(x1) <= e.apply(x2), "C19.7c: easing is monotone on [0,1]");
    kani::cover!(x1 < x2 && matches!(e, Easing::OutPowi(_)));
    kani::cover!(x1 < x2 && matches!(e, Easing::InPowf(_)));
}

// @ob id=C19.7d,C06.4f strength=axioms axioms=POW tier=quick fn=tween.rs::Easing::apply
// @req InOutPowi, InOutPowf with positive powers; 0 <= x1 <= x2 <= 1
// @ens apply(x1) <= apply(x2), including across the midpoint where the two halves meet
#[kani::proof]
#[kani::unwind(8)]
#[kani::stub(f64::powf, powf64_model)]
#[kani::stub(f64::powi, powi64_model)]
fn c19_7d_monotone_inout() {
    let e = inout_easing();
    let x1 = any_f64_in(0.0, 1.0);
    let x2 = any_f64_in(0.0, 1.0);
    kani::assume(x1 <= x2);
    assert!(e.apply(x1) <= e.apply(x2), "C19.7d: in-out easing is monotone on [0,1]");
    kani::cover!(x1 < 0.5 && x2 > 0.5);
}

// @ob id=C19.7e,C06.4g strength=axioms axioms=POW tier=quick fn=tween.rs::Easing::apply
// @req InOutPowi, InOutPowf with positive powers
// @ens the two halves meet at the midpoint: apply(0.5) == 0.5 exactly, the first half stays <= 0.5 and the second >= 0.5
#[kani::proof]
#[kani::unwind(8)]
#[kani::stub(f64::powf, powf64_model)]
#[kani::stub(f64::powi, powi64_model)]
fn c19_7e_inout_midpoint() {
    let e = inout_easing();
    assert!(e.apply(0.5) == 0.5, "C19.7e: in-out easings pass through (0.5, 0.5)");
    let x = any_f64_in(0.0, 1.0);
    let y = e.apply(x);
    if x < 0.5 { assert!(y <= 0.5, "C19.7e: first half below the midpoint"); } else { assert!(y >= 0.5, "C19.7e: second half above the midpoint"); }
    kani::cover!(x < 0.5);
    kani::cover!(x > 0.5);
}

// @ob id=C06.4e strength=axioms axioms=POW tier=quick fn=tween.rs::Tween::value
// @req any built-in easing with a positive power; duration = whole seconds in 1..=1000 (+0 or 1/2 s); 0 <= time <= duration
// @ens value(time) in [0,1]; value(0) == 0
#[kani::proof]
#[kani::unwind(8)]
#[kani::stub(f64::powf, powf64_model)]
#[kani::stub(f64::powi, powi64_model)]
fn c06_4e_tween_value_range() {
    let s: u64 = kani::any();
    kani::assume(s >= 1 && s <= 1000);
    let d = Duration::new(s, if kani::any() { 0 } else { 500_000_000 });
    let tw = Tween { start_time: StartTime::Immediate, duration: d, easing: any_easing() };
    assert!(tw.value(0.0) == 0.0, "C06.4e: a tween starts at its start value");
    let t = any_f64_in(0.0, 1000.5);
    kani::assume(t <= d.as_secs_f64());
    let v = tw.value(t);
    assert!(v >= 0.0 && v <= 1.0, "C06.4e: the eased progress stays in [0,1] until the end of the tween");
    kani::cover!(t > 0.0);
}

// @ob id=C06.4d strength=complete tier=quick fn=tween.rs::Easing::apply
// @req Linear easing, any f64 bit pattern
// @ens apply(x) is bit-identical to x
#[kani::proof]
#[kani::unwind(8)]
fn c06_4d_linear_identity() {
    let x: f64 = kani::any();
    assert!(Easing::Linear.apply(x).to_bits() == x.to_bits(), "C06.4d: linear easing is the identity");
    kani::cover!(true);
}
