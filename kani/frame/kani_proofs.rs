//! C19.2 — Frame::panned; C04.7 — interpolate_frame.
use super::*;
use crate::kani_support::*;

// @ob id=C19.2a strength=complete tier=quick fn=frame.rs::Frame::panned
// @req any f32 bit patterns for left, right; panning == 0.0 (centre, either sign of zero)
// @ens result is bit-identical to the input frame (centre keeps level)
#[kani::proof]
#[kani::unwind(4)]
fn c19_2a_center_identity() {
    let l: f32 = kani::any();
    let r: f32 = kani::any();
    let p: f32 = kani::any();
    kani::assume(p == 0.0);
    let out = Frame::new(l, r).panned(Panning(p));
    assert!(out.left.to_bits() == l.to_bits() && out.right.to_bits() == r.to_bits(), "C19.2a: centre panning is the identity");
    kani::cover!(p.is_sign_negative());
    kani::cover!(l.is_nan());
}

// @ob id=C19.2b strength=complete tier=quick fn=frame.rs::Frame::panned
// @req left, right any finite f32; panning p any non-NaN f32 with |p| >= 1 (hard left / hard right and everything beyond: the clamp)
// @ens hard right (p >= 1): left output is zero and the right output keeps the sign of the input and is zero iff the input is; hard left mirrored
#[kani::proof]
#[kani::unwind(4)]
fn c19_2b_edges_zero_side() {
    let l = any_finite32();
    let r = any_finite32();
    let p: f32 = kani::any();
    kani::assume(!p.is_nan() && (p >= 1.0 || p <= -1.0));
    let out = Frame::new(l, r).panned(Panning(p));
    if p >= 1.0 {
        assert!(out.left == 0.0, "C19.2b: hard right silences the left channel");
        assert!((out.right > 0.0) == (r > 0.0) && (out.right < 0.0) == (r < 0.0), "C19.2b: hard right keeps the right channel's sign");
    } else {
        assert!(out.right == 0.0, "C19.2b: hard left silences the right channel");
        assert!((out.left > 0.0) == (l > 0.0) && (out.left < 0.0) == (l < 0.0), "C19.2b: hard left keeps the left channel's sign");
    }
    kani::cover!(p > 1.0);
    kani::cover!(p < -1.0);
}

// @ob id=C19.2d strength=bounded tier=quick bound="left/right restricted to 6 significant mantissa bits, |x| in [1e-3,1e3]; p in {1, 2.5, -1, -7}" fn=frame.rs::Frame::panned
// @req as C19.2b with reduced-precision samples
// @ens hard right carries right*sqrt(2) (within 3e-7 relative), hard left carries left*sqrt(2); out-of-range p gives bit-identical output to the clamped p
#[kani::proof]
#[kani::unwind(4)]
fn c19_2d_edges_gain() {
    let l = any_f32_in(1.0e-3, 1.0e3);
    let r = any_f32_in(1.0e-3, 1.0e3);
    kani::assume(l.to_bits() & ((1u32 << 17) - 1) == 0 && r.to_bits() & ((1u32 << 17) - 1) == 0);
    let right_side: bool = kani::any();
    let beyond: bool = kani::any();
    let p = if right_side { if beyond { 2.5 } else { 1.0 } } else { if beyond { -7.0 } else { -1.0 } };
    let out = Frame::new(l, r).panned(Panning(p));
    let outc = Frame::new(l, r).panned(Panning(if right_side { 1.0 } else { -1.0 }));
    assert!(out.left.to_bits() == outc.left.to_bits() && out.right.to_bits() == outc.right.to_bits(), "C19.2d: out-of-range panning behaves as the clamped value");
    let carried = if right_side { out.right } else { out.left };
    let want = (if right_side { r } else { l }) * core::f32::consts::SQRT_2;
    assert!((carried - want).abs() <= 3.0e-7 * want, "C19.2d: the full side carries sqrt(2) x input");
    kani::cover!(right_side && beyond);
    kani::cover!(!right_side && !beyond);
}

// @ob id=C19.2c strength=bounded tier=quick bound="panning on the grid k/8, k=-8..8, k != 0; mono input 1.0; CBMC's own sqrtf model" fn=frame.rs::Frame::panned
// @req mono sample 1.0, p = k/8
// @ens total power l^2 + r^2 within 1e-5 of 2 (the power of the centred signal); both gains within [0, sqrt 2]; right gain > left gain iff p > 0
#[kani::proof]
#[kani::unwind(4)]
fn c19_2c_power_grid() {
    let k: i8 = kani::any();
    kani::assume(k >= -8 && k <= 8 && k != 0);
    let p = k as f32 / 8.0;
    let out = Frame::from_mono(1.0).panned(Panning(p));
    let power = out.left * out.left + out.right * out.right;
    assert!(power >= 1.99999 && power <= 2.00001, "C19.2c: panning keeps the total power of a centred signal");
    assert!(out.left >= 0.0 && out.left <= 1.4142137 && out.right >= 0.0 && out.right <= 1.4142137, "C19.2c: gains within [0, sqrt 2]");
    assert!((out.right > out.left) == (p > 0.0), "C19.2c: balance follows the sign of the panning");
    kani::cover!(k == 8);
    kani::cover!(k == -3);
}

// @ob id=C04.7a strength=complete tier=quick fn=frame.rs::interpolate_frame
// @req four finite frames (|x| <= 1e6), fraction == 0
// @ens the result equals `current` exactly (both channels; -0.0/+0.0 identified)
#[kani::proof]
#[kani::unwind(4)]
fn c04_7a_interpolate_at_zero() {
    let f = |_: u8| Frame::new(any_f32_in(-1.0e6, 1.0e6), any_f32_in(-1.0e6, 1.0e6));
    let (p, c, n1, n2) = (f(0), f(1), f(2), f(3));
    let out = interpolate_frame(p, c, n1, n2, 0.0);
    assert!(out.left == c.left && out.right == c.right, "C04.7a: fraction 0 returns the current frame");
    kani::cover!(c.left != 0.0);
}

// @ob id=C04.7b strength=bounded tier=quick bound="constant value on the dyadic grid k/8, |k| <= 16 (so that 2.5 v etc. are exact); fraction fully symbolic" fn=frame.rs::interpolate_frame
// @req four EQUAL frames v on the dyadic grid k/8 (|k| <= 16), fraction any f32 in [0,1]
// @ens the result is v exactly (the interpolator reproduces constants: c1 = c2 = c3 = 0)
#[kani::proof]
#[kani::unwind(4)]
fn c04_7b_interpolate_constant() {
    let v = grid_frame();
    let x = any_f32_in(0.0, 1.0);
    let out = interpolate_frame(v, v, v, v, x);
    assert!(out.left == v.left && out.right == v.right, "C04.7b: a constant signal is reproduced exactly at every fractional position");
    kani::cover!(x > 0.0 && x < 1.0);
}

// @ob id=C04.7c strength=bounded tier=quick bound="samples on the grid k/4, k=-8..8 (left channel; right = 0); fraction in {0, 1/4, 1/2, 3/4, 1}" fn=frame.rs::interpolate_frame
// @req four frames on the sample grid
// @ens equals the 4-point 3rd-order Hermite polynomial ((c3 x + c2) x + c1) x + c0 with c0 = y0, c1 = (y1 - y-1)/2, c2 = y-1 - 5/2 y0 + 2 y1 - y2/2, c3 = (y2 - y-1)/2 + 3/2 (y0 - y1) evaluated in exact (dyadic) arithmetic; fraction 1 gives next_1
#[kani::proof]
#[kani::unwind(4)]
fn c04_7c_interpolate_hermite_grid() {
    let g = |_: u8| { let k: i8 = kani::any(); kani::assume(k >= -8 && k <= 8); k as f32 / 4.0 };
    let (ym, y0, y1, y2) = (g(0), g(1), g(2), g(3));
    let x = match kani::any::<u8>() % 5 { 0 => 0.0, 1 => 0.25, 2 => 0.5, 3 => 0.75, _ => 1.0f32 };
    let out = interpolate_frame(Frame::new(ym, 0.0), Frame::new(y0, 0.0), Frame::new(y1, 0.0), Frame::new(y2, 0.0), x);
    // all quantities are small dyadic rationals: f32 arithmetic is exact here, so the reference can be written in f64
    let (a, b, c, d, t) = (ym as f64, y0 as f64, y1 as f64, y2 as f64, x as f64);
    let c1 = (c - a) * 0.5;
    let c2 = a - b * 2.5 + c * 2.0 - d * 0.5;
    let c3 = (d - a) * 0.5 + (b - c) * 1.5;
    let want = ((c3 * t + c2) * t + c1) * t + b;
    assert!(out.left as f64 == want, "C04.7c: 4-point Hermite interpolation");
    assert!(out.right == 0.0, "C04.7c: channels are independent");
    if x == 1.0 { assert!(out.left == y1, "C04.7c: fraction 1 lands on the next frame"); }
    kani::cover!(x == 0.5 && ym != y0);
}
