//! C19.2 — Frame::panned; C04.7 — interpolate_frame.
use super::*;
use crate::kani_support::*;

// @ob id=C19.2a strength=complete tier=quick fn=frame.rs::Frame::panned
// @req any f32 bit patterns for left, right; panning == 0.0 (centre, either sign of zero)
// @ens result is bit-identical to the input frame (centre keeps level)
#[kani::proof]
#[kani::unwind(4)]
fn c19_2a_center_identity() {
    let l: f32 = kani::any();
    let r: f32 = kani::any();
    let p: f32 = kani::any();
    kani::assume(p == 0.0);
    let out = Frame::new(l, r).panned(Panning(p));
    assert!(out.left.to_bits() == l.to_bits() && out.right.to_bits() == r.to_bits(), "C19.2a: centre panning is the identity");
    kani::cover!(p.is_sign_negative());
    kani::cover!(l.is_nan());
}

// @ob id=C19.2b strength=complete tier=quick fn=frame.rs::Frame::panned
// @req left, right any finite f32; panning p any non-NaN f32 with |p| >= 1 (hard left / hard right and everything beyond: the clamp)
// @ens hard right (p >= 1): left output is zero and the right output keeps the sign of the input and is zero iff the input is; hard left mirrored
#[kani::proof]
#[kani::unwind(4)]
fn c19_2b_edges_zero_side() {
    let l = any_finite32();
    let r = any_finite32();
    let p: f32 = kani::any();
    kani::assume(!p.is_nan() && (p >= 1.0 || p <= -1.0));
    let out = Frame::new(l, r).panned(Panning(p));
    if p >= 1.0 {
        assert!(out.left == 0.0, "C19.2b: hard right silences the left channel");
        assert!((out.right > 0.0) == (r > 0.0) && (out.right < 0.0) == (r < 0.0), "C19.2b: hard right keeps the right channel's sign");
    } else {
        assert!(out.right == 0.0, "C19.2b: hard left silences the right channel");
        assert!((out.left > 0.0) == (l > 0.0) && (out.left < 0.0) == (l < 0.0), "C19.2b: hard left keeps the left channel's sign");
    }
    kani::cover!(p > 1.0);
    kani::cover!(p < -1.0);
}

// @ob id=C19.2d strength=bounded tier=quick bound="left/right restricted to 6 significant mantissa bits, |x| in [1e-3,1e3]; p in {1, 2.5, -1, -7}" fn=frame.rs::Frame::panned
// @req as C19.2b with reduced-precision samples
// @ens hard right carries right*sqrt(2) (within 3e-7 relative), hard left carries left*sqrt(2); out-of-range p gives bit-identical output to the clamped p
#[kani::proof]
#[kani::unwind(4)]
fn c19_2d_edges_gain() {
    let l = any_f32_in(1.0e-3, 1.0e3);
    let r = any_f32_in(1.0e-3, 1.0e3);
    kani::assume(l.to_bits() & ((1u32 << 17) - 1) == 0 && r.to_bits() & ((1u32 << 17) - 1) == 0);
    let right_side: bool = kani::any();
    let beyond: bool = kani::any();
    let p = if right_side { if beyond { 2.5 } else { 1.0 } } else { if beyond { -7.0 } else { -1.0 } };
    let out = Frame::new(l, r).panned(Panning(p));
    let outc = Frame::new(l, r).panned(Panning(if right_side { 1.0 } else { -1.0 }));
    assert!(out.left.to_bits() == outc.left.to_bits() && out.right.to_bits() == outc.right.to_bits(), "C19.2d: out-of-range panning behaves as the clamped value");
    let carried = if right_side { out.right } else { out.left };
    let want = (if right_side { r } else { l }) * core::f32::consts::SQRT_2;
    assert!((carried - want).abs() <= 3.0e-7 * want, "C19.2d: the full side carries sqrt(2) x input");
    kani::cover!(right_side && beyond);
    kani::cover!(!right_side && !beyond);
}

// @ob id=C19.2c strength=bounded tier=quick bound="panning on the grid k/8, k=-8..8, k != 0; mono input 1.0; CBMC's own sqrtf model" fn=frame.rs::Frame::panned
// @req mono sample 1.0, p = k/8
// @ens total power l^2 + r^2 within 1e-5 of 2 (the power of the centred signal); both gains within [0, sqrt 2]; right gain > left gain iff p > 0
#[kani::proof]
#[kani::unwind(4)]
fn c19_2c_power_grid() {
    let k: i8 = kani::any();
    kani::assume(k >= -8 && k <= 8 && k != 0);
    let p = k as f32 / 8.0;
    let out = Frame::from_mono(1.0).panned(Panning(p));
    let power = out.left * out.left + out.right * out.right;
    assert!(power >= 1.99999 && power <= 2.00001, "C19.2c: panning keeps the total power of a centred signal");
    assert!(out.left >= 0.0 && out.left <= 1.4142137 && out.right >= 0.0 && out.right <= 1.4142137, "C19.2c: gains within [0, sqrt 2]");
    assert!((out.right > out.left) == (p > 0.0), "C19.2c: balance follows the sign of the panning");
    kani::cover!(k == 8);
    kani::cover!(k == -3);
}
