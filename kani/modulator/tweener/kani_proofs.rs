//! C06.6 / C17.2 — the tweener modulator (its update duplicates Parameter's logic, so it gets its own obligations).
// @deps info
use super::*;
use crate::kani_support::*;
use crate::info::kani_proofs::empty_info;
use crate::Easing;

fn dur() -> Duration {
    let s: u64 = kani::any();
    kani::assume(s <= 1000);
    Duration::new(s, match kani::any::<u8>() % 3 { 0 => 0, 1 => 250_000_000, _ => 500_000_000 })
}
fn any_dt() -> f64 { match kani::any::<u8>() % 5 { 0 => 0.0, 1 => 1.0 / 48000.0, 2 => 0.25, 3 => 1.0, _ => 3.5 } }

fn tweener(state: State, value: f64) -> (Tweener, CommandWriters) {
    let (w, r) = command_writers_and_readers();
    (Tweener { state, value, command_readers: r, shared: Arc::new(TweenerShared::new()) }, w)
}

// @ob id=C06.6a,C17.2a strength=complete tier=quick fn=modulator/tweener.rs::Tweener::{set,update}
// @req idle tweener at any value; or tweening with elapsed t and dt such that t + dt >= duration (start Immediate or Delayed(0))
// @ens idle: update changes nothing; finishing: value' == target EXACTLY and the tweener is idle again (then holds the target); set(): starts from the current value at elapsed 0
#[kani::proof]
#[kani::unwind(4)]
#[kani::stub(Tween::value, tween_value_rec)]
#[kani::stub(<f64 as Tweenable>::interpolate, interpolate_f64_rec)]
fn c06_6a_tweener_idle_set_finish() {
    let info = empty_info();
    let v0: f64 = kani::any();
    let (mut t, _w) = tweener(State::Idle, v0);
    t.update(any_dt(), &info);
    assert!(matches!(t.state, State::Idle) && t.value.to_bits() == v0.to_bits(), "C06.6a: an idle tweener holds its value");
    let target = any_f64_in(-1.0e6, 1.0e6);
    let d = dur();
    let tw = Tween { start_time: if kani::any() { StartTime::Immediate } else { StartTime::Delayed(Duration::ZERO) }, duration: d, easing: Easing::Linear };
    t.set(target, tw);
    assert!(matches!(t.state, State::Tweening { values, time, tween } if values.0.to_bits() == v0.to_bits() && values.1.to_bits() == target.to_bits() && time == 0.0 && tween == tw), "C06.6a: set starts from the current value");
    assert!(t.value.to_bits() == v0.to_bits(), "C06.6a: set does not jump");
    let time = any_f64_in(0.0, 1.0e6);
    if let State::Tweening { time: tm, .. } = &mut t.state { *tm = time; }
    let dt = any_dt();
    kani::assume(time + dt >= d.as_secs_f64());
    t.update(dt, &info);
    assert!(matches!(t.state, State::Idle) && t.value.to_bits() == target.to_bits(), "C06.6a: the tweener ends exactly on its target and then holds it");
    kani::cover!(d.is_zero());
    kani::cover!(!d.is_zero());
    core::mem::forget(info); core::mem::forget(t); core::mem::forget(_w);
}

// @ob id=C06.6b,C17.2b strength=complete tier=quick fn=modulator/tweener.rs::Tweener::update
// @req tweening, started, t + dt < duration; Tween::value and f64::interpolate replaced by recording stand-ins
// @ens time' == t + dt; value' == interpolate(start, target, ease(time'/duration)) (one call each, with exactly these arguments); still tweening
#[kani::proof]
#[kani::unwind(4)]
#[kani::stub(Tween::value, tween_value_rec)]
#[kani::stub(<f64 as Tweenable>::interpolate, interpolate_f64_rec)]
fn c06_6b_tweener_mid_step() {
    let info = empty_info();
    let (a, b) = (any_f64_in(-1.0e6, 1.0e6), any_f64_in(-1.0e6, 1.0e6));
    let d = dur();
    let time = any_f64_in(0.0, 1.0e6);
    let tw = Tween { start_time: StartTime::Immediate, duration: d, easing: Easing::Linear };
    let (mut t, _w) = tweener(State::Tweening { values: (a, b), time, tween: tw }, kani::any());
    let dt = any_dt();
    kani::assume(time + dt < d.as_secs_f64());
    t.update(dt, &info);
    assert!(matches!(t.state, State::Tweening { values, time: tm, .. } if tm == time + dt && values.0.to_bits() == a.to_bits() && values.1.to_bits() == b.to_bits()), "C06.6b: elapsed time accumulates, endpoints kept");
    unsafe {
        assert!(TV_N == 1 && TV_TIME[0] == time + dt && TV_DUR[0] == d.as_secs_f64(), "C06.6b: easing evaluated once at the new elapsed time");
        assert!(IP_N == 1 && IP_A[0].to_bits() == a.to_bits() && IP_B[0].to_bits() == b.to_bits() && IP_T[0].to_bits() == TV_RET[0].to_bits(), "C06.6b: value = interpolate(start, target, ease)");
        assert!(t.value.to_bits() == IP_RET[0].to_bits(), "C06.6b: the modulator value is that interpolation");
    }
    kani::cover!(dt > 0.0);
    core::mem::forget(info); core::mem::forget(t); core::mem::forget(_w);
}

// @ob id=C06.6c,C17.2c strength=complete tier=quick fn=modulator/tweener.rs::Tweener::update
// @req tweening with a Delayed(d > 0) start
// @ens value and elapsed time unchanged; the delay counts down by dt
#[kani::proof]
#[kani::unwind(4)]
#[kani::stub(Tween::value, tween_value_rec)]
#[kani::stub(<f64 as Tweenable>::interpolate, interpolate_f64_rec)]
fn c06_6c_tweener_waits_for_delay() {
    let info = empty_info();
    let d = dur();
    kani::assume(!d.is_zero());
    let time = any_f64_in(0.0, 1.0e6);
    let v: f64 = kani::any();
    let tw = Tween { start_time: StartTime::Delayed(d), duration: dur(), easing: Easing::Linear };
    let (mut t, _w) = tweener(State::Tweening { values: (kani::any(), kani::any()), time, tween: tw }, v);
    let dt = any_dt();
    t.update(dt, &info);
    assert!(t.value.to_bits() == v.to_bits(), "C06.6c: the value is held until the start time");
    assert!(matches!(t.state, State::Tweening { time: tm, tween, .. } if tm.to_bits() == time.to_bits() && tween.start_time == StartTime::Delayed(d.saturating_sub(Duration::from_secs_f64(dt)))), "C06.6c: only the delay counts down");
    kani::cover!(dt > 0.0);
    core::mem::forget(info); core::mem::forget(t); core::mem::forget(_w);
}

// @ob id=C07.2b,C17.2d strength=bounded tier=quick bound="single thread, one command, two callbacks" fn=modulator/tweener.rs::Tweener::on_start_processing
// @req a set command written before the first callback
// @ens it is applied at that callback (not lost) and not re-applied at the next one
#[kani::proof]
#[kani::unwind(4)]
fn c07_2b_tweener_command_once() {
    let v0 = any_f64_in(-10.0, 10.0);
    let (mut t, mut w) = tweener(State::Idle, v0);
    let target: f64 = kani::any();
    let tw = Tween { start_time: StartTime::Immediate, duration: Duration::from_secs(1), easing: Easing::Linear };
    w.set.write((target, tw));
    t.on_start_processing();
    assert!(matches!(t.state, State::Tweening { values, time, .. } if values.1.to_bits() == target.to_bits() && time == 0.0), "C07.2b: a command issued before the first callback is applied at it");
    if let State::Tweening { time, .. } = &mut t.state { *time = 0.5; }
    t.on_start_processing();
    assert!(matches!(t.state, State::Tweening { time, .. } if time == 0.5), "C07.2b: the command is not applied twice");
    kani::cover!(true);
    core::mem::forget(t); core::mem::forget(w);
}
