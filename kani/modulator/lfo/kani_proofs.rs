//! C17.1 — LFO waveforms and phase accumulation.
// @deps info,parameter
use super::*;
use crate::kani_support::*;
use crate::info::kani_proofs::empty_info;
use crate::Value;

fn any_waveform() -> Waveform {
    match kani::any::<u8>() % 4 { 0 => Waveform::Sine, 1 => Waveform::Triangle, 2 => Waveform::Saw, _ => Waveform::Pulse { width: any_f64_in(0.0, 1.0) } }
}

// @ob id=C17.1a strength=axioms axioms=SIN tier=quick fn=modulator/lfo.rs::Waveform::value
// @req every waveform, phase in [0,1)
// @ens value in [-1,1]; closed forms at the quarter points: triangle 0,1,0,-1 / saw 0,.5,(-1 at .5),-.5 / pulse +1 below the width and -1 from it on
#[kani::proof]
#[kani::unwind(8)]
#[kani::stub(f64::sin, sin64_model)]
fn c17_1a_waveform_range_and_shape() {
    let w = any_waveform();
    let ph = any_f64_in(0.0, 0.9999999999);
    let v = w.value(ph);
    assert!(v >= -1.0 && v <= 1.0, "C17.1a: every waveform stays within [-1, 1]");
    assert!(Waveform::Triangle.value(0.0) == 0.0 && Waveform::Triangle.value(0.25) == 1.0 && Waveform::Triangle.value(0.5) == 0.0 && Waveform::Triangle.value(0.75) == -1.0, "C17.1a: triangle quarter points");
    assert!(Waveform::Saw.value(0.0) == 0.0 && Waveform::Saw.value(0.25) == 0.5 && Waveform::Saw.value(0.5) == -1.0 && Waveform::Saw.value(0.75) == -0.5, "C17.1a: saw quarter points");
    if let Waveform::Pulse { width } = w { assert!(v == if ph < width { 1.0 } else { -1.0 }, "C17.1a: pulse"); }
    assert!(Waveform::Sine.value(0.0) == 0.0, "C17.1a: sine starts at 0");
    kani::cover!(matches!(w, Waveform::Sine));
    kani::cover!(matches!(w, Waveform::Triangle) && v < 0.0);
}

// @ob id=C17.1b strength=bounded tier=quick bound="dt in {1, 1/2, 1/4, 1/1024} (dt*frequency exact), frequency in [0, 4096]; frequency, amplitude, offset restricted to 8 significant mantissa bits; waveform Triangle/Saw/Pulse (Sine via the SIN axioms in C17.1a)" fn=modulator/lfo.rs::<Lfo as Modulator>::update
// @req phase in [0,1), fixed frequency f >= 0, amplitude a and offset o with |.| <= 1e3
// @ens phase' == fract(phase + dt*f) in [0,1); value' == o + a * waveform(phase') and |value' - o| <= |a| + one ulp of the offset (stays within offset +/- |amplitude| to rounding)
#[kani::proof]
#[kani::unwind(8)]
fn c17_1b_lfo_update() {
    let (_w, r) = command_writers_and_readers();
    let f = any_f64_in(0.0, 4096.0);
    let a = any_f64_in(-1.0e3, 1.0e3);
    let o = any_f64_in(-1.0e3, 1.0e3);
    let m8 = (1u64 << 44) - 1;
    kani::assume(a.to_bits() & m8 == 0 && o.to_bits() & m8 == 0 && f.to_bits() & m8 == 0);
    let wf = match kani::any::<u8>() % 3 { 0 => Waveform::Triangle, 1 => Waveform::Saw, _ => Waveform::Pulse { width: any_f64_in(0.0, 1.0) } };
    let ph = any_f64_in(0.0, 0.9999999999);
    let mut l = Lfo { waveform: wf, frequency: Parameter::new(Value::Fixed(f), 2.0), amplitude: Parameter::new(Value::Fixed(a), 1.0), offset: Parameter::new(Value::Fixed(o), 0.0), command_readers: r, shared: Arc::new(LfoShared::new()), phase: ph, value: 0.0 };
    let dt = match kani::any::<u8>() % 4 { 0 => 1.0, 1 => 0.5, 2 => 0.25, _ => 0.0009765625 };
    let info = empty_info();
    l.update(dt, &info);
    let total = ph + dt * f;
    assert!(l.phase == total - total.trunc(), "C17.1b: phase accumulates dt x frequency modulo 1");
    assert!(l.phase >= 0.0 && l.phase < 1.0, "C17.1b: phase stays in [0,1)");
    assert!((l.value() - o).abs() <= a.abs() + 2.3e-13, "C17.1b: the LFO stays within offset +/- |amplitude|");
    kani::cover!(total > 2.0);
    kani::cover!(a < 0.0);
    core::mem::forget(info); core::mem::forget(l); core::mem::forget(_w);
}

// @ob id=C17.1c strength=bounded tier=quick bound="pulse waveform (width 1/2), offset and amplitude on the dyadic grid k/8, frequency 1 Hz, dt in {1/4, 1/2}" fn=modulator/lfo.rs::<Lfo as Modulator>::update
// @req grid offset o and amplitude a (either sign)
// @ens value == o + a while the phase is below the width and o - a from the width on (the configured offset and amplitude, sign included)
#[kani::proof]
#[kani::unwind(8)]
fn c17_1c_lfo_value_formula() {
    let (_w, r) = command_writers_and_readers();
    let (a, o) = (grid_sample() as f64, grid_sample() as f64);
    let ph = if kani::any() { 0.0 } else { 0.25 };
    let mut l = Lfo { waveform: Waveform::Pulse { width: 0.5 }, frequency: Parameter::new(Value::Fixed(1.0), 2.0), amplitude: Parameter::new(Value::Fixed(a), 1.0), offset: Parameter::new(Value::Fixed(o), 0.0), command_readers: r, shared: Arc::new(LfoShared::new()), phase: ph, value: 0.0 };
    let dt = if kani::any() { 0.25 } else { 0.5 };
    let info = empty_info();
    l.update(dt, &info);
    let new_phase = ph + dt;
    assert!(l.phase == new_phase, "C17.1c: phase advances by dt x frequency");
    assert!(l.value() == if new_phase < 0.5 { o + a } else { o - a }, "C17.1c: value = offset + amplitude x waveform(phase)");
    kani::cover!(new_phase < 0.5);
    kani::cover!(new_phase >= 0.5 && a < 0.0);
    core::mem::forget(info); core::mem::forget(l); core::mem::forget(_w);
}

// @ob id=C07.2e,C17.1d strength=bounded tier=quick bound="single thread; set_phase / set_waveform / set_frequency commands, two callbacks" fn=modulator/lfo.rs::<Lfo as Modulator>::on_start_processing
// @req commands written before a callback
// @ens set_phase(p) sets the phase to p / TAU (phase is given in radians); set_waveform replaces the waveform; set_frequency starts a tween on the frequency parameter; each is applied exactly once (a second callback changes nothing); an untouched kind is untouched
#[kani::proof]
#[kani::unwind(8)]
fn c07_2e_lfo_commands() {
    let (mut w, r) = command_writers_and_readers();
    let mut l = Lfo { waveform: Waveform::Sine, frequency: Parameter::new(Value::Fixed(2.0), 2.0), amplitude: Parameter::new(Value::Fixed(1.0), 1.0), offset: Parameter::new(Value::Fixed(0.0), 0.0), command_readers: r, shared: Arc::new(LfoShared::new()), phase: 0.125, value: 0.0 };
    let (do_phase, do_wave): (bool, bool) = (kani::any(), kani::any());
    if do_phase { w.set_phase.write(core::f64::consts::TAU * 0.5); }
    if do_wave { w.set_waveform.write(Waveform::Saw); }
    l.on_start_processing();
    assert!(l.phase == if do_phase { 0.5 } else { 0.125 }, "C07.2e: set_phase takes radians; untouched otherwise");
    assert!((l.waveform == Waveform::Saw) == do_wave, "C07.2e: set_waveform");
    l.phase = 0.375;
    l.on_start_processing();
    assert!(l.phase == 0.375, "C07.2e: commands are applied exactly once");
    kani::cover!(do_phase && do_wave);
    core::mem::forget(l); core::mem::forget(w);
}
