//! C02.2 — SendTrack::{add_input, process}.
// @deps info,parameter
use super::*;
use crate::kani_support::*;
use crate::info::kani_proofs::empty_info;
use crate::Value;
use crate::command::command_writer_and_reader;

pub(crate) fn mk_send_track(ibs: usize, volume: Decibels, effects: Vec<Box<dyn Effect>>) -> SendTrack {
    let (w, r) = command_writer_and_reader();
    core::mem::forget(w);
    SendTrack { shared: Arc::new(TrackShared::new()), volume: Parameter::new(Value::Fixed(volume), Decibels::IDENTITY), set_volume_command_reader: r, effects, input: vec![Frame::ZERO; ibs], internal_buffer_size: ibs }
}

pub(crate) fn send_input(t: &SendTrack, i: usize) -> Frame { t.input[i] }

// @ob id=C02.2a strength=bounded tier=quick bound="internal buffer 2, 1-2 frames, route volume in {0 dB, -60 dB}, send volume in {0 dB, -60 dB}, one probe effect (x*0.5+1/4)" fn=track/send.rs::SendTrack::{add_input,process}
// @req two tracks feed the send (dyadic symbolic frames)
// @ens input accumulates in_a*amp(route_a) + in_b*amp(route_b); process outputs effect(input)*amp(volume) for the frames asked and then the input buffer is ALL zero (nothing carries over to the next chunk, even frames beyond a short chunk)
#[kani::proof]
#[kani::unwind(4)]
#[kani::stub(f32::powf, powf32_model)]
fn c02_2a_send_accumulates_then_clears() {
    let (ra, amp_a) = if kani::any() { (Decibels(0.0), 1.0f32) } else { (Decibels(-60.0), 0.0) };
    let (sv, amp_s) = if kani::any() { (Decibels(0.0), 1.0f32) } else { (Decibels(-60.0), 0.0) };
    let mut t = mk_send_track(2, sv, vec![Box::new(ProbeEffect { id: 0, gain: 0.5, add: 0.25 })]);
    let a = [grid_frame(), grid_frame()];
    let b = [grid_frame(), grid_frame()];
    t.add_input(&a, ra);
    t.add_input(&b, Decibels(0.0));
    let mut i = 0;
    while i < 2 {
        assert!(t.input[i].left == a[i].left * amp_a + b[i].left && t.input[i].right == a[i].right * amp_a + b[i].right, "C02.2a: the send input is the sum of the routed signals");
        i += 1;
    }
    let n: usize = if kani::any() { 1 } else { 2 };
    let mut out = [Frame::ZERO; 2];
    let info = empty_info();
    t.process(&mut out[..n], 1.0 / 48000.0, &info);
    let mut i = 0;
    while i < n {
        let inl = a[i].left * amp_a + b[i].left;
        let inr = a[i].right * amp_a + b[i].right;
        assert!(out[i].left == (inl * 0.5 + 0.25) * amp_s && out[i].right == (inr * 0.5) * amp_s, "C02.2a: send output = effects(input) x send volume");
        i += 1;
    }
    assert!(t.input[0].left == 0.0 && t.input[0].right == 0.0 && t.input[1].left == 0.0 && t.input[1].right == 0.0, "C02.2a: the send input is consumed and cleared");
    kani::cover!(n == 1);
    kani::cover!(amp_a == 0.0 && amp_s == 1.0);
    core::mem::forget(info); core::mem::forget(t);
}
