//! C02.1 / C03.7 / C07.3 — the real MainTrack with probe sounds and probe effects.
// @deps info,parameter
use super::*;
use crate::kani_support::*;
use crate::info::kani_proofs::empty_info;
use crate::Value;

fn volume_choice() -> (Decibels, f32) {
    match kani::any::<u8>() % 3 { 0 => (Decibels(0.0), 1.0), 1 => (Decibels(-60.0), 0.0), _ => (Decibels(-80.0), 0.0) }
}

// @ob id=C02.1a,C01.9a strength=bounded tier=thorough timeout=10800 bound="2 probe sounds (constant dyadic frames), 2 probe effects (x*0.5+1/4 then x*2+1/8), 2 frames, track volume in {0 dB, -60 dB, -80 dB}; incoming bus symbolic dyadic" fn=track/main.rs::MainTrack::process
// @req a main track holding two live sounds and two effects; out pre-loaded with the bus signal
// @ens out[i] = effects_in_order(in[i] + s1 + s2) * amplitude(volume), exactly; every sound and effect is asked exactly once for exactly out.len() frames with the given dt; the scratch buffer is all zero on return and not reallocated
#[kani::proof]
#[kani::unwind(4)]
#[kani::stub(f32::powf, powf32_model)]
fn c02_1a_main_track_signal_flow() {
    let (vol, amp) = volume_choice();
    let b = MainTrackBuilder::new().sound_capacity(2).volume(Value::Fixed(vol))
        .with_built_effect(Box::new(ProbeEffect { id: 0, gain: 0.5, add: 0.25 }))
        .with_built_effect(Box::new(ProbeEffect { id: 1, gain: 2.0, add: 0.125 }));
    let (mut t, mut h) = b.build(2);
    let (s1, s2) = (grid_frame(), grid_frame());
    h.sound_controller.insert(Box::new(ProbeSound { id: 0, value: s1 })).unwrap();
    h.sound_controller.insert(Box::new(ProbeSound { id: 1, value: s2 })).unwrap();
    t.on_start_processing();
    unsafe { assert!(PS_START[0] == 1 && PS_START[1] == 1, "C07.3: a sound picked up in a callback receives on_start_processing in that same callback"); }
    let n: usize = if kani::any() { 1 } else { 2 };
    let inp = [grid_frame(), grid_frame()];
    let mut out = inp;
    let (ptr, cap) = (t.temp_buffer.as_ptr(), t.temp_buffer.capacity());
    let info = empty_info();
    let dt = 1.0 / 48000.0;
    t.process(&mut out[..n], dt, &info);
    let mut i = 0;
    while i < n {
        let sum_l = inp[i].left + s1.left + s2.left;
        let sum_r = inp[i].right + s1.right + s2.right;
        let want_l = ((sum_l * 0.5 + 0.25) * 2.0 + 0.125) * amp;
        let want_r = (sum_r * 0.5 * 2.0) * amp;
        assert!(out[i].left == want_l && out[i].right == want_r, "C02.1a: out = effects in order (bus + every sound) x track volume");
        i += 1;
    }
    if n == 1 { assert!(out[1].left == inp[1].left && out[1].right == inp[1].right, "C02.1a: frames beyond the slice are untouched"); }
    unsafe {
        assert!(PS_CALLS[0] == 1 && PS_CALLS[1] == 1 && PS_FRAMES[0] == n && PS_FRAMES[1] == n, "C02.1a: every live sound is asked for every frame exactly once");
        assert!(PS_DT[0] == dt && PS_DT[1] == dt, "C02.1a: sounds receive the per-frame dt");
        assert!(PE_CALLS[0] == 1 && PE_CALLS[1] == 1 && PE_FRAMES[0] == n && PE_FRAMES[1] == n && PE_ORDER[0] < PE_ORDER[1], "C02.1a: effects run once each, in order");
    }
    assert!(t.temp_buffer[0].left == 0.0 && t.temp_buffer[0].right == 0.0 && t.temp_buffer[1].left == 0.0 && t.temp_buffer[1].right == 0.0, "C02.1a: nothing is left in the scratch buffer");
    assert!(t.temp_buffer.as_ptr() == ptr && t.temp_buffer.capacity() == cap, "C01.9a: no reallocation");
    kani::cover!(n == 2 && amp == 1.0);
    kani::cover!(amp == 0.0);
    core::mem::forget(info); core::mem::forget(t); core::mem::forget(h);
}

// @ob id=C03.7a,C08.4a strength=bounded tier=thorough timeout=10800 bound="sound capacity 2, two probe sounds, one finishes" fn=track/main.rs::MainTrack::on_start_processing
// @req two live sounds, the first reports finished()
// @ens after the next on_start_processing the finished sound is gone (it is no longer processed, the count dropped by one and its slot is reusable) and it was NOT dropped by the audio side (it waits in the unused ring until the caller's next insert)
#[kani::proof]
#[kani::unwind(4)]
fn c03_7a_finished_sound_is_unloaded_not_dropped() {
    let (mut t, mut h) = MainTrackBuilder::new().sound_capacity(2).build(1);
    h.sound_controller.insert(Box::new(ProbeSound { id: 0, value: Frame::ZERO })).unwrap();
    h.sound_controller.insert(Box::new(ProbeSound { id: 1, value: Frame::ZERO })).unwrap();
    t.on_start_processing();
    assert!(h.sound_controller.len() == 2 && h.sound_controller.insert(Box::new(ProbeSound { id: 2, value: Frame::ZERO })).is_err(), "C08.1: full track refuses a third sound");
    unsafe { PS_DROPS[2] = 0; PS_FINISHED[0] = true; }
    t.on_start_processing();
    assert!(h.sound_controller.len() == 1, "C03.7a: a finished sound is unloaded at the next callback");
    unsafe { assert!(PS_DROPS[0] == 0, "C08.4a: the audio side does not destroy the sound"); }
    let info = empty_info();
    let mut out = [Frame::ZERO; 1];
    t.process(&mut out, 1.0, &info);
    unsafe { assert!(PS_CALLS[0] == 0 && PS_CALLS[1] == 1, "C03.7a: an unloaded sound is no longer processed"); }
    assert!(h.sound_controller.insert(Box::new(ProbeSound { id: 3, value: Frame::ZERO })).is_ok(), "C03.7a: its slot is reusable");
    unsafe { assert!(PS_DROPS[0] == 1, "C08.4a: the removed sound is destroyed on the caller's side, during the next insert"); }
    kani::cover!(true);
    core::mem::forget(info); core::mem::forget(t); core::mem::forget(h);
}
