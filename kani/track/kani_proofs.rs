//! C12.1 — TrackShared state mirror; re-exports of the track builders for harness modules outside `track`.
// @deps info,parameter,track/sub,track/send
use super::*;
pub(crate) use super::sub::kani_proofs::{mk_track, forget_rest};
pub(crate) use super::send::kani_proofs::mk_send_track;

// @ob id=C12.1a strength=complete tier=quick fn=track.rs::{TrackShared::{set_state,state},<TrackPlaybackState as From<PlaybackState>>::from}
// @req every playback state a track's state machine can be in through pause / resume / resume_at and fade completion: Playing, Pausing, Paused, WaitingToResume, Resuming
// @ens the handle-visible state is the namesake track state and querying it does not panic; From<PlaybackState> agrees
#[kani::proof]
#[kani::unwind(3)]
fn c12_1a_track_state_roundtrip() {
    let s = match kani::any::<u8>() % 5 { 0 => PlaybackState::Playing, 1 => PlaybackState::Pausing, 2 => PlaybackState::Paused, 3 => PlaybackState::WaitingToResume, _ => PlaybackState::Resuming };
    let sh = TrackShared::new();
    assert!(sh.state() == TrackPlaybackState::Playing && !sh.is_marked_for_removal(), "C12.1a: a new track is Playing");
    sh.set_state(s);
    let got = sh.state();
    assert!(got == TrackPlaybackState::from(s), "C12.1a: the handle reports the track's state");
    assert!(got.is_advancing() == s.is_advancing(), "C12.1a: both state types agree on whether audio advances");
    sh.mark_for_removal();
    assert!(sh.is_marked_for_removal(), "C12.1a: removal flag");
    kani::cover!(s == PlaybackState::WaitingToResume);
}

// @ob id=C12.1b strength=complete tier=quick finding=F6 fn=track.rs::TrackShared::{set_state,state}
// @req witness for finding F6: the state a track reaches when it waits (resume_at) on a clock that has been removed: PlaybackStateManager::update moves WaitingToResume to Stopped (C03.2b) and Track::process mirrors it with set_state
// @ens (expected to FAIL while F6 is present) querying the track state does not panic and yields one of the five track states
#[kani::proof]
#[kani::unwind(3)]
fn c12_1b_witness_f6_stopped_track_state_panics() {
    let sh = TrackShared::new();
    sh.set_state(PlaybackState::Stopped);
    let got = sh.state();
    kani::cover!(got == TrackPlaybackState::Paused);
}
