//! C15 — distance -> relative distance.
use super::*;
use crate::kani_support::*;

fn any_distances() -> SpatialTrackDistances {
    let min = any_f32_in(0.0, 1.0e6);
    let max = any_f32_in(0.0, 1.0e6);
    kani::assume(min < max);
    SpatialTrackDistances { min_distance: min, max_distance: max }
}

// @ob id=C15.1a strength=complete tier=quick timeout=800 fn=track/sub/spatial_builder.rs::SpatialTrackDistances::relative_distance
// @req finite 0 <= min < max <= 1e6 (excludes findings F9: min > max or NaN, and F10: min == max); any non-NaN distance at or inside the minimum distance, or at or beyond the maximum (including +inf)
// @ens exactly 0 at or inside the minimum distance (full volume); exactly 1 at or beyond the maximum distance (inaudible)
#[kani::proof]
#[kani::unwind(3)]
fn c15_1a_relative_distance_end_points() {
    let s = any_distances();
    let d: f32 = kani::any();
    kani::assume(!d.is_nan() && (d <= s.min_distance || d >= s.max_distance));
    let r = s.relative_distance(d);
    if d <= s.min_distance { assert!(r == 0.0, "C15.1a: within the minimum distance the relative distance is 0 (full volume)"); }
    else { assert!(r == 1.0, "C15.1a: at or beyond the maximum distance it is 1 (inaudible)"); }
    kani::cover!(d > s.max_distance);
    kani::cover!(d < s.min_distance);
}

// @ob id=C15.1e strength=complete tier=quick timeout=800 fn=track/sub/spatial_builder.rs::SpatialTrackDistances::relative_distance
// @req finite 0 <= min < max <= 1e6; distance strictly between them
// @ens the relative distance stays in [0,1]
#[kani::proof]
#[kani::unwind(3)]
fn c15_1e_relative_distance_range() {
    let s = any_distances();
    let d: f32 = kani::any();
    kani::assume(d > s.min_distance && d < s.max_distance);
    let r = s.relative_distance(d);
    assert!(r >= 0.0 && r <= 1.0, "C15.1e: relative distance stays in [0,1]");
    kani::cover!(r > 0.0 && r < 1.0);
}

// @ob id=C15.1b strength=bounded tier=disabled bound="min, max, distances restricted to 4 significant mantissa bits" fn=track/sub/spatial_builder.rs::SpatialTrackDistances::relative_distance
// @req 0 <= min < max <= 1e6, d1 <= d2
// @ens relative distance is non-decreasing in the distance (so the attenuation is non-increasing)
#[kani::proof]
#[kani::unwind(3)]
fn c15_1b_relative_distance_monotone() {
    let m = (1u32 << 19) - 1;
    let min = any_f32_in(0.0, 1.0e6);
    let max = any_f32_in(0.0, 1.0e6);
    let d1 = any_f32_in(0.0, 1.0e7);
    let d2 = any_f32_in(0.0, 1.0e7);
    kani::assume(min < max && d1 <= d2 && min.to_bits() & m == 0 && max.to_bits() & m == 0 && d1.to_bits() & m == 0 && d2.to_bits() & m == 0);
    let s = SpatialTrackDistances { min_distance: min, max_distance: max };
    assert!(s.relative_distance(d1) <= s.relative_distance(d2), "C15.1b: farther is never louder");
    kani::cover!(d1 < d2 && d1 > min && d2 < max);
}

// @ob id=C15.1c strength=complete tier=quick finding=F9 fn=track/sub/spatial_builder.rs::SpatialTrackDistances::relative_distance
// @req witness for finding F9: min_distance > max_distance (both finite)
// @ens (expected to FAIL while F9 is present) relative_distance does not panic (it runs on the audio thread)
#[kani::proof]
#[kani::unwind(3)]
fn c15_1c_witness_f9_inverted_distances() {
    let min = any_f32_in(0.0, 1.0e6);
    let max = any_f32_in(0.0, 1.0e6);
    kani::assume(min > max);
    let r = SpatialTrackDistances { min_distance: min, max_distance: max }.relative_distance(any_f32_in(0.0, 1.0e6));
    kani::cover!(r >= 0.0);
}

// @ob id=C15.1d strength=complete tier=quick finding=F10 fn=track/sub/spatial_builder.rs::SpatialTrackDistances::relative_distance
// @req witness for finding F10: min_distance == max_distance
// @ens (expected to FAIL while F10 is present) the result is a number in [0,1] (the real code returns 0/0 = NaN, which becomes a NaN gain)
#[kani::proof]
#[kani::unwind(3)]
fn c15_1d_witness_f10_equal_distances() {
    let m = any_f32_in(0.0, 1.0e6);
    let r = SpatialTrackDistances { min_distance: m, max_distance: m }.relative_distance(any_f32_in(0.0, 1.0e6));
    assert!(r >= 0.0 && r <= 1.0, "C15.1d: relative distance is a number in [0,1] (F10)");
}
