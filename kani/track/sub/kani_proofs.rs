//! C02.3 / C12 — the real sub-track (Track) with probe sounds, a probe effect, a child track and a send route.
// @deps info,parameter,track/send
use super::*;
use crate::kani_support::*;
use crate::track::send::kani_proofs::{mk_send_track, send_input};
use crate::backend::resources::ResourceController;
use crate::Value;
use std::time::Duration;

pub(crate) struct Env {
    pub clocks: Clocks,
    pub modulators: Modulators,
    pub listeners: Listeners,
    pub sends: ResourceStorage<SendTrack>,
    pub send_ctl: ResourceController<SendTrack>,
}

pub(crate) fn env(send_capacity: usize) -> Env {
    let (clocks, c1) = Clocks::new(0);
    let (modulators, c2) = Modulators::new(0);
    let (listeners, c3) = Listeners::new(0);
    core::mem::forget(c1); core::mem::forget(c2); core::mem::forget(c3);
    let (sends, send_ctl) = ResourceStorage::new(send_capacity);
    Env { clocks, modulators, listeners, sends, send_ctl }
}

pub(crate) struct Built {
    pub track: Track,
    pub writers: CommandWriters,
    pub sound_ctl: ResourceController<Box<dyn Sound>>,
    pub sub_ctl: ResourceController<Track>,
}

/// A Track built field by field exactly as TrackBuilder::build does (that function also builds a HashMap for the
/// handle, which Kani cannot execute: RandomState needs OS randomness).
pub(crate) fn mk_track(ibs: usize, volume: Decibels, effects: Vec<Box<dyn Effect>>, sends: Vec<(SendTrackId, Decibels)>, sound_cap: usize, sub_cap: usize, persist: bool) -> Built {
    let (writers, command_readers) = command_writers_and_readers();
    let (sounds, sound_ctl) = ResourceStorage::new(sound_cap);
    let (sub_tracks, sub_ctl) = ResourceStorage::new(sub_cap);
    let mut routes = vec![];
    for (id, v) in sends {
        let (w, r) = crate::command::command_writer_and_reader();
        core::mem::forget(w);
        routes.push((id, SendTrackRoute { volume: Parameter::new(Value::Fixed(v), Decibels::IDENTITY), set_volume_command_reader: r }));
    }
    let track = Track {
        shared: Arc::new(TrackShared::new()),
        command_readers,
        volume: Parameter::new(Value::Fixed(volume), Decibels::IDENTITY),
        sounds,
        sub_tracks,
        effects,
        sends: routes,
        persist_until_sounds_finish: persist,
        spatial_data: None,
        playback_state_manager: PlaybackStateManager::new(None),
        temp_buffer: vec![Frame::ZERO; ibs],
        internal_buffer_size: ibs,
    };
    Built { track, writers, sound_ctl, sub_ctl }
}

fn zero_tween() -> Tween { Tween { start_time: StartTime::Immediate, duration: Duration::ZERO, easing: Easing::Linear } }

// @ob id=C02.3a strength=bounded tier=quick bound="ibs 2, 1-2 frames; one child track holding one probe sound, one own probe sound, one probe effect (x*0.5+1/4), one send route at 0 dB or -60 dB, track volume 0 dB or -60 dB; dyadic sample values" fn=track/sub.rs::Track::process
// @req a playing track with a child track, a sound, an effect and a send route; out pre-loaded with zeros
// @ens out = effect(child_out + sound) * amp(volume) (fade at unity); the send track's input receives exactly that post-fader signal times the route gain; child, sound and effect are each driven exactly once for out.len() frames; the scratch buffer is all zero on return
#[kani::proof]
#[kani::unwind(6)]
#[kani::stub(f32::powf, powf32_model)]
fn c02_3a_track_signal_flow() {
    let mut e = env(1);
    let send_key = e.send_ctl.insert(mk_send_track(2, Decibels(0.0), vec![])).unwrap();
    e.sends.remove_and_add(|_| false);
    let (vol, amp) = if kani::any() { (Decibels(0.0), 1.0f32) } else { (Decibels(-60.0), 0.0) };
    let (route, ramp) = if kani::any() { (Decibels(0.0), 1.0f32) } else { (Decibels(-60.0), 0.0) };
    let mut b = mk_track(2, vol, vec![Box::new(ProbeEffect { id: 0, gain: 0.5, add: 0.25 })], vec![(SendTrackId(send_key), route)], 1, 1, false);
    let mut child = mk_track(2, Decibels(0.0), vec![], vec![], 1, 0, false);
    let (sc, ss) = (grid_frame(), grid_frame());
    child.sound_ctl.insert(Box::new(ProbeSound { id: 1, value: sc })).unwrap();
    b.sub_ctl.insert(child.track).unwrap();
    b.sound_ctl.insert(Box::new(ProbeSound { id: 0, value: ss })).unwrap();
    b.track.on_start_processing();
    unsafe { assert!(PS_START[0] == 1 && PS_START[1] == 1 && PE_START[0] == 1, "C07.3: new sounds, child tracks and effects are started in the callback that picks them up"); }
    let n: usize = if kani::any() { 1 } else { 2 };
    let mut out = [Frame::ZERO; 2];
    let dt = 1.0 / 48000.0;
    b.track.process(&mut out[..n], dt, &e.clocks, &e.modulators, &e.listeners, None, &mut e.sends);
    let want = Frame::new(((sc.left + ss.left) * 0.5 + 0.25) * amp, ((sc.right + ss.right) * 0.5) * amp);
    let mut i = 0;
    while i < n {
        assert!(out[i].left == want.left && out[i].right == want.right, "C02.3a: track output = effects(children + sounds) x track volume");
        i += 1;
    }
    let st = e.sends.get_mut(send_key).unwrap();
    let mut i = 0;
    while i < 2 {
        let got = send_input(st, i);
        if i < n { assert!(got.left == want.left * ramp && got.right == want.right * ramp, "C02.3a: the send is fed from the post-fader signal times the route volume"); }
        else { assert!(got.left == 0.0 && got.right == 0.0, "C02.3a: nothing is sent for frames that were not rendered"); }
        i += 1;
    }
    unsafe {
        assert!(PS_CALLS[0] == 1 && PS_CALLS[1] == 1 && PS_FRAMES[0] == n && PS_FRAMES[1] == n && PE_CALLS[0] == 1 && PE_FRAMES[0] == n, "C02.3a: every sound, child and effect is asked once for every frame");
        assert!(PS_DT[0] == dt && PS_DT[1] == dt, "C02.3a: dt is handed down unchanged");
    }
    assert!(b.track.temp_buffer[0].left == 0.0 && b.track.temp_buffer[0].right == 0.0 && b.track.temp_buffer[1].left == 0.0 && b.track.temp_buffer[1].right == 0.0, "C02.3a: nothing is left in the scratch buffer");
    kani::cover!(n == 2 && amp == 1.0 && ramp == 1.0);
    kani::cover!(amp == 0.0);
    core::mem::forget(e); core::mem::forget(b);
}

// @ob id=C12.2a,C02.3b strength=bounded tier=quick bound="as C02.3a; the track paused with a zero-length fade" fn=track/sub.rs::Track::{process,read_commands,pause}
// @req the handle's pause command (zero-length fade) is read at a callback; then one warm-up process lets the fade finish; then a 2-frame process
// @ens the track reports Paused; its output is exactly zero; its child track, its sound and its effect are not called at all (their positions cannot advance); nothing reaches the send
#[kani::proof]
#[kani::unwind(6)]
#[kani::stub(f32::powf, powf32_model)]
fn c12_2a_paused_track_freezes_subtree() {
    let mut e = env(1);
    let send_key = e.send_ctl.insert(mk_send_track(2, Decibels(0.0), vec![])).unwrap();
    e.sends.remove_and_add(|_| false);
    let mut b = mk_track(2, Decibels(0.0), vec![Box::new(ProbeEffect { id: 0, gain: 0.5, add: 0.25 })], vec![(SendTrackId(send_key), Decibels(0.0))], 1, 1, false);
    let mut child = mk_track(2, Decibels(0.0), vec![], vec![], 1, 0, false);
    child.sound_ctl.insert(Box::new(ProbeSound { id: 1, value: grid_frame() })).unwrap();
    b.sub_ctl.insert(child.track).unwrap();
    b.sound_ctl.insert(Box::new(ProbeSound { id: 0, value: grid_frame() })).unwrap();
    b.writers.pause.write(zero_tween());
    b.track.on_start_processing();
    assert!(b.track.shared.state() == TrackPlaybackState::Pausing, "C12.2a: pause is applied at the callback");
    let mut warm = [Frame::ZERO; 1];
    b.track.process(&mut warm, 0.0, &e.clocks, &e.modulators, &e.listeners, None, &mut e.sends);
    assert!(b.track.shared.state() == TrackPlaybackState::Paused, "C12.2a: a zero-length fade completes at the next update");
    unsafe { PS_CALLS[0] = 0; PS_CALLS[1] = 0; PE_CALLS[0] = 0; }
    let st = e.sends.get_mut(send_key).unwrap();
    let before = (send_input(st, 0), send_input(st, 1));
    let mut out = [Frame::new(3.0, 3.0); 2];
    b.track.process(&mut out, 1.0 / 48000.0, &e.clocks, &e.modulators, &e.listeners, None, &mut e.sends);
    assert!(out[0].left == 0.0 && out[0].right == 0.0 && out[1].left == 0.0 && out[1].right == 0.0, "C12.2a: a paused track emits exact silence");
    unsafe { assert!(PS_CALLS[0] == 0 && PS_CALLS[1] == 0 && PE_CALLS[0] == 0, "C12.2a: nothing beneath a paused track is processed, so no position, delay or fade advances"); }
    let st = e.sends.get_mut(send_key).unwrap();
    assert!(send_input(st, 0).left == before.0.left && send_input(st, 1).left == before.1.left, "C12.2a: a paused branch sends nothing");
    kani::cover!(true);
    core::mem::forget(e); core::mem::forget(b);
}

// @ob id=C12.3a strength=bounded tier=quick bound="one parent, one child; persistence on/off; 0 or 1 sounds; removal flags symbolic" fn=track/sub.rs::Track::should_be_removed
// @req a parent track with one child track; each with an arbitrary 'handle dropped' flag; the parent with persistence on or off and 0 or 1 live sounds
// @ens should_be_removed == marked && (!persist || no sounds) && child.should_be_removed(): a track is never removable while a descendant track is not
#[kani::proof]
#[kani::unwind(6)]
fn c12_3a_removal_predicate() {
    let persist: bool = kani::any();
    let has_sound: bool = kani::any();
    let (pm, cm): (bool, bool) = (kani::any(), kani::any());
    let mut b = mk_track(1, Decibels(0.0), vec![], vec![], 1, 1, persist);
    let child = mk_track(1, Decibels(0.0), vec![], vec![], 0, 0, false);
    if cm { child.track.shared.mark_for_removal(); }
    b.sub_ctl.insert(child.track).unwrap();
    if has_sound { b.sound_ctl.insert(Box::new(ProbeSound { id: 0, value: Frame::ZERO })).unwrap(); }
    b.track.sub_tracks.remove_and_add(|_| false);
    b.track.sounds.remove_and_add(|_| false);
    if pm { b.track.shared.mark_for_removal(); }
    let want = pm && (!persist || !has_sound) && cm;
    assert!(b.track.should_be_removed() == want, "C12.3a: removal follows the handle / persistence / descendants rule");
    kani::cover!(want);
    kani::cover!(pm && !cm);
    kani::cover!(pm && cm && persist && has_sound);
    core::mem::forget(b);
}

// @ob id=C12.1c strength=bounded tier=quick finding=F6 fn=track/sub.rs::Track::{process,read_commands,resume}
// @req witness for finding F6 through the real objects: a clock is created and removed again (its id is now stale); the track handle issues resume_at(that clock's time); one callback and one process follow
// @ens (expected to FAIL while F6 is present) the state reported for the track is one of the five track states and querying it does not panic
#[kani::proof]
#[kani::unwind(6)]
#[kani::stub(f32::powf, powf32_model)]
fn c12_1c_witness_f6_resume_at_removed_clock() {
    let (mut clocks, mut cctl) = Clocks::new(1);
    let key = cctl.try_reserve().unwrap();
    let id = crate::clock::ClockId(key);
    let (clock, handle) = crate::clock::Clock::new(Value::Fixed(crate::clock::ClockSpeed::TicksPerSecond(1.0)), id);
    cctl.insert_with_key(key, clock);
    clocks.on_start_processing();
    drop(handle); // marks the clock for removal
    clocks.on_start_processing();
    let (modulators, c2) = Modulators::new(0);
    let (listeners, c3) = Listeners::new(0);
    let (mut sends, c4) = ResourceStorage::<SendTrack>::new(0);
    let mut b = mk_track(1, Decibels(0.0), vec![], vec![], 0, 0, false);
    b.writers.resume.write((StartTime::ClockTime(crate::clock::ClockTime { clock: id, ticks: 1, fraction: 0.0 }), zero_tween()));
    b.track.on_start_processing();
    let mut out = [Frame::ZERO; 1];
    b.track.process(&mut out, 1.0 / 48000.0, &clocks, &modulators, &listeners, None, &mut sends);
    let s = b.track.shared.state();
    kani::cover!(s == TrackPlaybackState::Paused);
    core::mem::forget(b); core::mem::forget(clocks); core::mem::forget(cctl); core::mem::forget(modulators); core::mem::forget(listeners); core::mem::forget(sends);
    core::mem::forget(c2); core::mem::forget(c3); core::mem::forget(c4);
}
