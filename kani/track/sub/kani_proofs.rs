//! C02.3 / C12 — the real sub-track (Track) with probe sounds, a probe effect, a child track and a send route.
// @deps info,parameter,track/send,playback_state_manager
use super::*;
use crate::kani_support::*;
use crate::track::send::kani_proofs::{mk_send_track, send_input};
use crate::backend::resources::ResourceController;
use crate::Value;
use crate::track::TrackPlaybackState;
use crate::listener::ListenerId;
use crate::command::ValueChangeCommand;
use std::time::Duration;

pub(crate) struct Env {
    pub clocks: Clocks,
    pub modulators: Modulators,
    pub listeners: Listeners,
    pub sends: ResourceStorage<SendTrack>,
    pub send_ctl: ResourceController<SendTrack>,
}

pub(crate) fn env(send_capacity: usize) -> Env {
    let (clocks, c1) = Clocks::new(0);
    let (modulators, c2) = Modulators::new(0);
    let (listeners, c3) = Listeners::new(0);
    core::mem::forget(c1); core::mem::forget(c2); core::mem::forget(c3);
    let (sends, send_ctl) = ResourceStorage::new(send_capacity);
    Env { clocks, modulators, listeners, sends, send_ctl }
}

pub(crate) struct Built {
    pub track: Track,
    pub writers: CommandWriters,
    pub sound_ctl: ResourceController<Box<dyn Sound>>,
    pub sub_ctl: ResourceController<Track>,
}

/// A Track built field by field exactly as TrackBuilder::build does (that function also builds a HashMap for the
/// handle, which Kani cannot execute: RandomState needs OS randomness).
pub(crate) fn mk_track(ibs: usize, volume: Decibels, effects: Vec<Box<dyn Effect>>, sends: Vec<(SendTrackId, Decibels)>, sound_cap: usize, sub_cap: usize, persist: bool) -> Built {
    let (writers, command_readers) = command_writers_and_readers();
    let (sounds, sound_ctl) = ResourceStorage::new(sound_cap);
    let (sub_tracks, sub_ctl) = ResourceStorage::new(sub_cap);
    let mut routes = vec![];
    for (id, v) in sends {
        let (w, r) = crate::command::command_writer_and_reader();
        core::mem::forget(w);
        routes.push((id, SendTrackRoute { volume: Parameter::new(Value::Fixed(v), Decibels::IDENTITY), set_volume_command_reader: r }));
    }
    let track = Track {
        shared: Arc::new(TrackShared::new()),
        command_readers,
        volume: Parameter::new(Value::Fixed(volume), Decibels::IDENTITY),
        sounds,
        sub_tracks,
        effects,
        sends: routes,
        persist_until_sounds_finish: persist,
        spatial_data: None,
        playback_state_manager: PlaybackStateManager::new(None),
        temp_buffer: vec![Frame::ZERO; ibs],
        internal_buffer_size: ibs,
    };
    Built { track, writers, sound_ctl, sub_ctl }
}

/// everything of a Built except the track itself must be forgotten too: dropping the controllers runs the drop glue of
/// the ring buffers of `Box<dyn Sound>` / `Track`, which dominates CBMC's time
pub(crate) fn forget_rest(writers: CommandWriters, a: ResourceController<Box<dyn Sound>>, b: ResourceController<Track>) {
    core::mem::forget(writers); core::mem::forget(a); core::mem::forget(b);
}

fn zero_tween() -> Tween { Tween { start_time: StartTime::Immediate, duration: Duration::ZERO, easing: Easing::Linear } }

// @ob id=C02.3a strength=bounded tier=disabled bound="ibs 2, 1-2 frames; one child track holding one probe sound, one own probe sound, one probe effect (x*0.5+1/4), one send route at 0 dB or -60 dB, track volume 0 dB or -60 dB; dyadic sample values" fn=track/sub.rs::Track::process
// @req a playing track with a child track, a sound, an effect and a send route; out pre-loaded with zeros
// @ens out = effect(child_out + sound) * amp(volume) (fade at unity); the send track's input receives exactly that post-fader signal times the route gain; child, sound and effect are each driven exactly once for out.len() frames; the scratch buffer is all zero on return
#[kani::proof]
#[kani::unwind(4)]
#[kani::stub(f32::powf, powf32_model)]
fn c02_3a_track_signal_flow() {
    let mut e = env(1);
    let send_key = e.send_ctl.insert(mk_send_track(2, Decibels(0.0), vec![])).unwrap();
    e.sends.remove_and_add(|_| false);
    let (vol, amp) = if kani::any() { (Decibels(0.0), 1.0f32) } else { (Decibels(-60.0), 0.0) };
    let (route, ramp) = if kani::any() { (Decibels(0.0), 1.0f32) } else { (Decibels(-60.0), 0.0) };
    let mut b = mk_track(2, vol, vec![Box::new(ProbeEffect { id: 0, gain: 0.5, add: 0.25 })], vec![(SendTrackId(send_key), route)], 1, 1, false);
    let mut child = mk_track(2, Decibels(0.0), vec![], vec![], 1, 0, false);
    let (sc, ss) = (grid_frame(), grid_frame());
    child.sound_ctl.insert(Box::new(ProbeSound { id: 1, value: sc })).unwrap();
    b.sub_ctl.insert(child.track).unwrap();
    forget_rest(child.writers, child.sound_ctl, child.sub_ctl);
    b.sound_ctl.insert(Box::new(ProbeSound { id: 0, value: ss })).unwrap();
    b.track.on_start_processing();
    unsafe { assert!(PS_START[0] == 1 && PS_START[1] == 1 && PE_START[0] == 1, "C07.3: new sounds, child tracks and effects are started in the callback that picks them up"); }
    let n: usize = if kani::any() { 1 } else { 2 };
    let mut out = [Frame::ZERO; 2];
    let dt = 1.0 / 48000.0;
    b.track.process(&mut out[..n], dt, &e.clocks, &e.modulators, &e.listeners, None, &mut e.sends);
    let want = Frame::new(((sc.left + ss.left) * 0.5 + 0.25) * amp, ((sc.right + ss.right) * 0.5) * amp);
    let mut i = 0;
    while i < n {
        assert!(out[i].left == want.left && out[i].right == want.right, "C02.3a: track output = effects(children + sounds) x track volume");
        i += 1;
    }
    let st = e.sends.get_mut(send_key).unwrap();
    let mut i = 0;
    while i < 2 {
        let got = send_input(st, i);
        if i < n { assert!(got.left == want.left * ramp && got.right == want.right * ramp, "C02.3a: the send is fed from the post-fader signal times the route volume"); }
        else { assert!(got.left == 0.0 && got.right == 0.0, "C02.3a: nothing is sent for frames that were not rendered"); }
        i += 1;
    }
    unsafe {
        assert!(PS_CALLS[0] == 1 && PS_CALLS[1] == 1 && PS_FRAMES[0] == n && PS_FRAMES[1] == n && PE_CALLS[0] == 1 && PE_FRAMES[0] == n, "C02.3a: every sound, child and effect is asked once for every frame");
        assert!(PS_DT[0] == dt && PS_DT[1] == dt, "C02.3a: dt is handed down unchanged");
    }
    assert!(b.track.temp_buffer[0].left == 0.0 && b.track.temp_buffer[0].right == 0.0 && b.track.temp_buffer[1].left == 0.0 && b.track.temp_buffer[1].right == 0.0, "C02.3a: nothing is left in the scratch buffer");
    kani::cover!(n == 2 && amp == 1.0 && ramp == 1.0);
    kani::cover!(amp == 0.0);
    core::mem::forget(e); core::mem::forget(b);
}

// @ob id=C12.2a,C02.3b strength=bounded tier=disabled bound="as C02.3a; the track paused with a zero-length fade" fn=track/sub.rs::Track::{process,read_commands,pause}
// @req the handle's pause command (zero-length fade) is read at a callback; then one warm-up process lets the fade finish; then a 2-frame process
// @ens the track reports Paused; its output is exactly zero; its child track, its sound and its effect are not called at all (their positions cannot advance); nothing reaches the send
#[kani::proof]
#[kani::unwind(4)]
#[kani::stub(f32::powf, powf32_model)]
fn c12_2a_paused_track_freezes_subtree() {
    let mut e = env(1);
    let send_key = e.send_ctl.insert(mk_send_track(2, Decibels(0.0), vec![])).unwrap();
    e.sends.remove_and_add(|_| false);
    let mut b = mk_track(2, Decibels(0.0), vec![Box::new(ProbeEffect { id: 0, gain: 0.5, add: 0.25 })], vec![(SendTrackId(send_key), Decibels(0.0))], 1, 1, false);
    let mut child = mk_track(2, Decibels(0.0), vec![], vec![], 1, 0, false);
    child.sound_ctl.insert(Box::new(ProbeSound { id: 1, value: grid_frame() })).unwrap();
    b.sub_ctl.insert(child.track).unwrap();
    forget_rest(child.writers, child.sound_ctl, child.sub_ctl);
    b.sound_ctl.insert(Box::new(ProbeSound { id: 0, value: grid_frame() })).unwrap();
    b.writers.pause.write(zero_tween());
    b.track.on_start_processing();
    assert!(b.track.shared.state() == TrackPlaybackState::Pausing, "C12.2a: pause is applied at the callback");
    let mut warm = [Frame::ZERO; 1];
    b.track.process(&mut warm, 0.0, &e.clocks, &e.modulators, &e.listeners, None, &mut e.sends);
    assert!(b.track.shared.state() == TrackPlaybackState::Paused, "C12.2a: a zero-length fade completes at the next update");
    unsafe { PS_CALLS[0] = 0; PS_CALLS[1] = 0; PE_CALLS[0] = 0; }
    let st = e.sends.get_mut(send_key).unwrap();
    let before = (send_input(st, 0), send_input(st, 1));
    let mut out = [Frame::new(3.0, 3.0); 2];
    b.track.process(&mut out, 1.0 / 48000.0, &e.clocks, &e.modulators, &e.listeners, None, &mut e.sends);
    assert!(out[0].left == 0.0 && out[0].right == 0.0 && out[1].left == 0.0 && out[1].right == 0.0, "C12.2a: a paused track emits exact silence");
    unsafe { assert!(PS_CALLS[0] == 0 && PS_CALLS[1] == 0 && PE_CALLS[0] == 0, "C12.2a: nothing beneath a paused track is processed, so no position, delay or fade advances"); }
    let st = e.sends.get_mut(send_key).unwrap();
    assert!(send_input(st, 0).left == before.0.left && send_input(st, 1).left == before.1.left, "C12.2a: a paused branch sends nothing");
    kani::cover!(true);
    core::mem::forget(e); core::mem::forget(b);
}

fn run_removal(persist: bool, has_sound: bool) {
    let (pm, cm): (bool, bool) = (kani::any(), kani::any());
    let mut b = mk_track(1, Decibels(0.0), vec![], vec![], 1, 1, persist);
    let child = mk_track(1, Decibels(0.0), vec![], vec![], 0, 0, false);
    // the object graph is built with a concrete shape (symbolic shapes make every arena error path, and with it the
    // recursive drop glue of Track, reachable for CBMC); only the two 'handle dropped' flags are symbolic
    let _ = b.track.sub_tracks.resources.insert(child.track);
    forget_rest(child.writers, child.sound_ctl, child.sub_ctl);
    if has_sound { let _ = b.track.sounds.resources.insert(Box::new(ProbeSound { id: 0, value: Frame::ZERO })); }
    if cm { for (_, c) in b.track.sub_tracks.iter() { c.shared.mark_for_removal(); } }
    if pm { b.track.shared.mark_for_removal(); }
    let want = pm && (!persist || !has_sound) && cm;
    assert!(b.track.should_be_removed() == want, "C12.3: removal follows the handle / persistence / descendants rule");
    kani::cover!(want);
    kani::cover!(pm && !cm);
    core::mem::forget(b);
}

// @ob id=C12.3a strength=bounded tier=disabled bound="one parent with one child track; persistence off; one live sound; 'handle dropped' flags of parent and child symbolic" fn=track/sub.rs::Track::should_be_removed
// @req parent without persistence
// @ens should_be_removed == parent marked && child removable: a track is never removable while a descendant track is not; live sounds do not keep a non-persistent track
#[kani::proof]
#[kani::unwind(3)]
fn c12_3a_removal_no_persist() { run_removal(false, true) }

// @ob id=C12.3b strength=bounded tier=disabled bound="as C12.3a; persistence on; one live sound" fn=track/sub.rs::Track::should_be_removed
// @req persistent parent that still has a sound
// @ens never removable while its sound lives (built to persist until its sounds finish)
#[kani::proof]
#[kani::unwind(3)]
fn c12_3b_removal_persist_with_sound() { run_removal(true, true) }

// @ob id=C12.3c strength=bounded tier=disabled bound="as C12.3a; persistence on; no sounds" fn=track/sub.rs::Track::should_be_removed
// @req persistent parent without sounds
// @ens removable exactly when marked and the child is removable
#[kani::proof]
#[kani::unwind(3)]
fn c12_3c_removal_persist_no_sound() { run_removal(true, false) }

// ----------------------------------------------------------------------------------------------------------------
// C15 — spatial data
// ----------------------------------------------------------------------------------------------------------------
fn spatial(position: Vec3, strength: f32, attenuation: Option<Easing>) -> SpatialData {
    SpatialData {
        listener_id: ListenerId(any_small_key(1)),
        position: Parameter::new(Value::Fixed(position), Vec3::ZERO),
        distances: SpatialTrackDistances { min_distance: 1.0, max_distance: 100.0 },
        attenuation_function: attenuation,
        spatialization_strength: Parameter::new(Value::Fixed(strength), 0.75),
    }
}

// @ob id=C15.2a strength=bounded tier=quick bound="listener at the origin, identity orientation; emitter on the x axis at distance in {0, 1/2, 1, 2, 50, 100, 200}; min 1, max 100; linear attenuation; spatialization strength 0; symbolic grid input frame" axioms=EXP10 fn=track/sub.rs::SpatialData::spatialize
// @req strength 0 (no panning)
// @ens within the minimum distance the frame passes unchanged (unity, and the stereo signal is not folded to mono); at or beyond the maximum distance the output is exactly zero; in between it is attenuated (never louder, sign kept); coincident emitter and listener give a finite result
#[kani::proof]
#[kani::unwind(8)]
#[kani::stub(f32::powf, powf32_model)]
fn c15_2a_distance_attenuation() {
    let d = match kani::any::<u8>() % 7 { 0 => 0.0f32, 1 => 0.5, 2 => 1.0, 3 => 2.0, 4 => 50.0, 5 => 100.0, _ => 200.0 };
    let sd = spatial(Vec3::new(d, 0.0, 0.0), 0.0, Some(Easing::Linear));
    let x = grid_frame();
    let out = sd.spatialize(x, Vec3::ZERO, Quat::IDENTITY, 1.0);
    if d <= 1.0 { assert!(out.left == x.left && out.right == x.right, "C15.2a: unity within the minimum distance, stereo image untouched at strength 0"); }
    else if d >= 100.0 { assert!(out.left == 0.0 && out.right == 0.0, "C15.2a: zero at or beyond the maximum distance"); }
    else {
        assert!(out.left.abs() <= x.left.abs() && out.right.abs() <= x.right.abs(), "C15.2a: attenuation never amplifies");
        assert!(out.left.is_finite() && out.right.is_finite(), "C15.2a: finite");
    }
    kani::cover!(d == 0.0);
    kani::cover!(d == 50.0);
    kani::cover!(d == 200.0);
    core::mem::forget(sd);
}

// @ob id=C15.3a strength=bounded tier=disabled bound="real Track with spatial data whose listener id does not resolve (listener arena of capacity 1, empty); one probe sound; 2 frames" fn=track/sub.rs::Track::process
// @req a spatial track whose listener never existed or was dropped
// @ens every output frame is exactly zero (the track is silent without a listener), and nothing is sent onward
#[kani::proof]
#[kani::unwind(4)]
#[kani::stub(f32::powf, powf32_model)]
fn c15_3a_spatial_track_without_listener_is_silent() {
    let (clocks, c1) = Clocks::new(0);
    let (modulators, c2) = Modulators::new(0);
    let (listeners, c3) = Listeners::new(1);
    let (mut sends, c4) = ResourceStorage::<SendTrack>::new(0);
    let mut b = mk_track(2, Decibels(0.0), vec![], vec![], 1, 0, false);
    b.track.spatial_data = Some(spatial(Vec3::new(2.0, 0.0, 0.0), 0.75, Some(Easing::Linear)));
    b.sound_ctl.insert(Box::new(ProbeSound { id: 0, value: Frame::new(0.5, 0.25) })).unwrap();
    b.track.on_start_processing();
    let mut out = [Frame::ZERO; 2];
    b.track.process(&mut out, 1.0 / 48000.0, &clocks, &modulators, &listeners, None, &mut sends);
    assert!(out[0].left == 0.0 && out[0].right == 0.0 && out[1].left == 0.0 && out[1].right == 0.0, "C15.3a: a spatial track without a listener is silent");
    unsafe { assert!(PS_CALLS[0] == 1, "C15.3a: (its sounds still advance)"); }
    kani::cover!(true);
    core::mem::forget(b); core::mem::forget(clocks); core::mem::forget(modulators); core::mem::forget(listeners); core::mem::forget(sends);
    core::mem::forget(c1); core::mem::forget(c2); core::mem::forget(c3); core::mem::forget(c4);
}


// ----------------------------------------------------------------------------------------------------------------
// leaf-track variants (no child track: no Arena<Track> assignment, hence no recursive Track drop glue) for the quick tier
// ----------------------------------------------------------------------------------------------------------------

// @ob id=C02.3c strength=bounded tier=thorough timeout=7200 bound="ibs 2, 2 frames; a leaf track with one probe sound, one probe effect (x*0.5+1/4), one send route at 0 dB, track volume 0 dB; dyadic sample values" fn=track/sub.rs::Track::process
// @req a playing leaf track
// @ens out = effect(sound) (unity volume and fade); the send input receives exactly that signal; sound and effect are driven once for 2 frames with the given dt; scratch buffer zero on return
#[kani::proof]
#[kani::unwind(4)]
#[kani::stub(f32::powf, powf32_model)]
fn c02_3c_leaf_track_signal_flow() {
    let mut e = env(1);
    let send_key = e.send_ctl.insert(mk_send_track(2, Decibels(0.0), vec![])).unwrap();
    e.sends.remove_and_add(|_| false);
    let mut b = mk_track(2, Decibels(0.0), vec![Box::new(ProbeEffect { id: 0, gain: 0.5, add: 0.25 })], vec![(SendTrackId(send_key), Decibels(0.0))], 1, 0, false);
    let ss = grid_frame();
    let _ = b.track.sounds.resources.insert(Box::new(ProbeSound { id: 0, value: ss }));
    let mut out = [Frame::ZERO; 2];
    let dt = 1.0 / 48000.0;
    b.track.process(&mut out, dt, &e.clocks, &e.modulators, &e.listeners, None, &mut e.sends);
    let want = Frame::new(ss.left * 0.5 + 0.25, ss.right * 0.5);
    assert!(out[0].left == want.left && out[0].right == want.right && out[1].left == want.left && out[1].right == want.right, "C02.3c: track output = effects(sounds) x volume x fade");
    let st = e.sends.get_mut(send_key).unwrap();
    assert!(send_input(st, 0).left == want.left && send_input(st, 1).right == want.right, "C02.3c: the send is fed from the post-fader signal");
    unsafe { assert!(PS_CALLS[0] == 1 && PS_FRAMES[0] == 2 && PS_DT[0] == dt && PE_CALLS[0] == 1 && PE_FRAMES[0] == 2, "C02.3c: sound and effect driven exactly once for every frame"); }
    assert!(b.track.temp_buffer[0].left == 0.0 && b.track.temp_buffer[1].left == 0.0 && b.track.temp_buffer[0].right == 0.0 && b.track.temp_buffer[1].right == 0.0, "C02.3c: nothing is left in the scratch buffer");
    kani::cover!(ss.left != 0.0);
    core::mem::forget(e); core::mem::forget(b);
}

// @ob id=C12.2b,C02.3d strength=bounded tier=disabled bound="a leaf track with one probe sound and one probe effect, paused with a zero-length fade; 2 frames" fn=track/sub.rs::Track::{process,read_commands,pause}
// @req pause command read at a callback, one warm-up update, then a 2-frame process
// @ens the handle reports Pausing, then Paused; the paused track emits exact silence and neither its sound nor its effect is called (nothing beneath it advances)
#[kani::proof]
#[kani::unwind(4)]
#[kani::stub(f32::powf, powf32_model)]
fn c12_2b_paused_leaf_track_is_frozen() {
    let mut e = env(0);
    let mut b = mk_track(2, Decibels(0.0), vec![Box::new(ProbeEffect { id: 0, gain: 0.5, add: 0.25 })], vec![], 1, 0, false);
    let _ = b.track.sounds.resources.insert(Box::new(ProbeSound { id: 0, value: Frame::new(0.5, 0.5) }));
    b.writers.pause.write(zero_tween());
    b.track.on_start_processing();
    assert!(b.track.shared.state() == TrackPlaybackState::Pausing, "C12.2b: pause is applied at the callback");
    let mut warm = [Frame::ZERO; 1];
    b.track.process(&mut warm, 0.0, &e.clocks, &e.modulators, &e.listeners, None, &mut e.sends);
    assert!(b.track.shared.state() == TrackPlaybackState::Paused, "C12.2b: a zero-length fade completes at the next update");
    unsafe { PS_CALLS[0] = 0; PE_CALLS[0] = 0; }
    let mut out = [Frame::new(3.0, 3.0); 2];
    b.track.process(&mut out, 1.0 / 48000.0, &e.clocks, &e.modulators, &e.listeners, None, &mut e.sends);
    assert!(out[0].left == 0.0 && out[0].right == 0.0 && out[1].left == 0.0 && out[1].right == 0.0, "C12.2b: a paused track emits exact silence");
    unsafe { assert!(PS_CALLS[0] == 0 && PE_CALLS[0] == 0, "C12.2b: nothing beneath a paused track is processed"); }
    kani::cover!(true);
    core::mem::forget(e); core::mem::forget(b);
}

// @ob id=C07.2d,C12.6a strength=bounded tier=quick bound="a leaf track built field by field; every combination of {pause, resume, set_volume} commands written before one callback; command arguments fixed" fn=track/sub.rs::Track::read_commands
// @req any subset of the track's command kinds issued between the same two callbacks
// @ens every issued command is applied in that callback and none interferes with another kind: pause then resume (both issued) leaves the track Resuming, pause alone Pausing, resume alone Resuming, neither Playing; the volume command is applied regardless; a second callback with nothing new changes nothing
#[kani::proof]
#[kani::unwind(4)]
fn c07_2d_track_commands_do_not_interfere() {
    let mut b = mk_track(1, Decibels(0.0), vec![], vec![], 0, 0, false);
    let (do_pause, do_resume, do_volume): (bool, bool, bool) = (kani::any(), kani::any(), kani::any());
    let tw = Tween { start_time: StartTime::Immediate, duration: Duration::from_secs(1), easing: Easing::Linear };
    if do_pause { b.writers.pause.write(tw); }
    if do_resume { b.writers.resume.write((StartTime::Immediate, tw)); }
    if do_volume { b.writers.set_volume.write(ValueChangeCommand { target: Value::Fixed(Decibels(-6.0)), tween: tw }); }
    b.track.read_commands();
    let want = if do_resume { TrackPlaybackState::Resuming } else if do_pause { TrackPlaybackState::Pausing } else { TrackPlaybackState::Playing };
    assert!(b.track.shared.state() == want, "C07.2d: pause and resume issued between the same two callbacks are both applied, in order, in the next callback");
    let v = crate::parameter::kani_proofs::view(&b.track.volume);
    assert!(matches!(v.0, crate::parameter::kani_proofs::PView::Tweening { .. }) == do_volume, "C07.2d: the volume command is applied iff it was issued");
    b.track.read_commands();
    assert!(b.track.shared.state() == want, "C07.2d: nothing is applied twice or late");
    kani::cover!(do_pause && do_resume);
    kani::cover!(!do_pause && !do_resume && do_volume);
    core::mem::forget(b);
}

// ----------------------------------------------------------------------------------------------------------------
// Track::process on a track WITHOUT sounds or children: `out` is pre-loaded with the signal its sounds/children would
// have summed into it (process only ever adds to `out`).  No Box<dyn Sound>/Track is moved into an arena, so these run
// in minutes and belong to the quick tier.
// ----------------------------------------------------------------------------------------------------------------

// @ob id=C02.3e strength=bounded tier=quick timeout=800 bound="ibs 2, 1-2 frames; empty sound/child storages, the incoming signal pre-loaded in `out` (dyadic grid); two probe effects (x*0.5+1/4 then x*2+1/8); one send route at 0 dB or -60 dB; track volume 0 dB or -60 dB" axioms=EXP10 fn=track/sub.rs::Track::process
// @req a playing track
// @ens out = effects in order (signal) x amp(volume) (fade at unity); the send's input receives exactly that post-fader signal x the route gain, only for the frames rendered; each effect is asked once for out.len() frames; scratch buffer untouched/zero
#[kani::proof]
#[kani::unwind(4)]
#[kani::stub(f32::powf, powf32_model)]
fn c02_3e_track_effects_volume_and_sends() {
    let mut e = env(1);
    // placed straight into the arena: handing a SendTrack through the rtrb ring costs CBMC 4 minutes and is C08's subject
    let send_key = e.sends.resources.insert(mk_send_track(2, Decibels(0.0), vec![])).unwrap();
    let (vol, amp) = if kani::any() { (Decibels(0.0), 1.0f32) } else { (Decibels(-60.0), 0.0) };
    let (route, ramp) = if kani::any() { (Decibels(0.0), 1.0f32) } else { (Decibels(-60.0), 0.0) };
    let mut b = mk_track(2, vol, vec![Box::new(ProbeEffect { id: 0, gain: 0.5, add: 0.25 }), Box::new(ProbeEffect { id: 1, gain: 2.0, add: 0.125 })], vec![(SendTrackId(send_key), route)], 0, 0, false);
    let n: usize = if kani::any() { 1 } else { 2 };
    let inp = [grid_frame(), grid_frame()];
    let mut out = inp;
    b.track.process(&mut out[..n], 1.0 / 48000.0, &e.clocks, &e.modulators, &e.listeners, None, &mut e.sends);
    let st = e.sends.get_mut(send_key).unwrap();
    let mut i = 0;
    while i < 2 {
        let want = Frame::new(((inp[i].left * 0.5 + 0.25) * 2.0 + 0.125) * amp, (inp[i].right * 0.5 * 2.0) * amp);
        let got = send_input(st, i);
        if i < n {
            assert!(out[i].left == want.left && out[i].right == want.right, "C02.3e: track output = effects in order x track volume x fade");
            assert!(got.left == want.left * ramp && got.right == want.right * ramp, "C02.3e: sends are fed from the post-fader signal x route volume");
        } else {
            assert!(out[i].left == inp[i].left && got.left == 0.0 && got.right == 0.0, "C02.3e: frames beyond the chunk are neither touched nor sent");
        }
        i += 1;
    }
    unsafe { assert!(PE_CALLS[0] == 1 && PE_CALLS[1] == 1 && PE_FRAMES[0] == n && PE_FRAMES[1] == n && PE_ORDER[0] < PE_ORDER[1], "C02.3e: effects run once each, in order, for every frame"); }
    kani::cover!(n == 1 && amp == 1.0 && ramp == 1.0);
    kani::cover!(amp == 0.0);
    core::mem::forget(e); core::mem::forget(b);
}

// @ob id=C12.2c,C02.3f strength=bounded tier=quick timeout=800 bound="as C02.3e; the track paused through its command reader with a zero-length fade" fn=track/sub.rs::Track::{process,read_commands,pause}
// @req a track whose state machine is Paused (fade resting at -60 dB); a 2-frame process with signal pre-loaded in `out`
// @ens the handle reports Paused; a paused track outputs exact silence, runs none of its effects and feeds nothing to its sends
#[kani::proof]
#[kani::unwind(4)]
#[kani::stub(f32::powf, powf32_model)]
fn c12_2c_paused_track_is_silent_and_inert() {
    let mut e = env(1);
    let send_key = e.sends.resources.insert(mk_send_track(2, Decibels(0.0), vec![])).unwrap();
    let mut b = mk_track(2, Decibels(0.0), vec![Box::new(ProbeEffect { id: 0, gain: 0.5, add: 0.25 })], vec![(SendTrackId(send_key), Decibels(0.0))], 0, 0, false);
    // the track is put in the state that pause + a completed fade produce (those transitions are C07.2d, C03.1a, C03.2a/d)
    b.track.playback_state_manager = crate::playback_state_manager::kani_proofs::paused_manager();
    b.track.update_shared_playback_state();
    assert!(b.track.shared.state() == TrackPlaybackState::Paused, "C12.2c: the handle reports Paused");
    unsafe { PE_CALLS[0] = 0; }
    let before = { let st = e.sends.get_mut(send_key).unwrap(); (send_input(st, 0), send_input(st, 1)) };
    let mut out = [Frame::new(3.0, 3.0); 2];
    b.track.process(&mut out, 1.0 / 48000.0, &e.clocks, &e.modulators, &e.listeners, None, &mut e.sends);
    assert!(out[0].left == 0.0 && out[0].right == 0.0 && out[1].left == 0.0 && out[1].right == 0.0, "C12.2c: a paused track emits exact silence");
    unsafe { assert!(PE_CALLS[0] == 0, "C12.2c: nothing on a paused track is processed"); }
    let st = e.sends.get_mut(send_key).unwrap();
    assert!(send_input(st, 0).left == before.0.left && send_input(st, 1).left == before.1.left, "C12.2c: a paused branch sends nothing");
    kani::cover!(true);
    core::mem::forget(e); core::mem::forget(b);
}

// @ob id=C12.2d strength=bounded tier=quick timeout=800 bound="leaf track without send routes, one probe effect; the track waits for a resume delayed by 1 s; one 2-frame process at 48 kHz" fn=track/sub.rs::Track::process
// @req a track whose state machine is WaitingToResume (resume_at with a start time not yet reached; fade resting at -60 dB); a 2-frame process with signal pre-loaded in `out`
// @ens the handle reports WaitingToResume and still does afterwards; the waiting track stays frozen exactly like a paused one: exact silence, none of its effects run
#[kani::proof]
#[kani::unwind(4)]
#[kani::stub(f32::powf, powf32_model)]
fn c12_2d_track_waiting_to_resume_stays_frozen() {
    let mut e = env(0);
    let mut b = mk_track(2, Decibels(0.0), vec![Box::new(ProbeEffect { id: 0, gain: 0.5, add: 0.25 })], vec![], 0, 0, false);
    // the track is put in the state that pause + a completed fade + resume_at(start time not reached) produce (C07.2d, C03.1a/b, C03.2a/d)
    b.track.playback_state_manager = crate::playback_state_manager::kani_proofs::waiting_manager(StartTime::Delayed(std::time::Duration::from_secs(1)));
    b.track.update_shared_playback_state();
    assert!(b.track.shared.state() == TrackPlaybackState::WaitingToResume, "C12.2d: the handle reports WaitingToResume");
    unsafe { PE_CALLS[0] = 0; }
    let mut out = [Frame::new(3.0, 3.0); 2];
    b.track.process(&mut out, 1.0 / 48000.0, &e.clocks, &e.modulators, &e.listeners, None, &mut e.sends);
    unsafe { assert!(PE_CALLS[0] == 0, "C12.2d: nothing on a track waiting to resume is processed"); }
    assert!(out[0].left == 0.0 && out[0].right == 0.0 && out[1].left == 0.0 && out[1].right == 0.0, "C12.2d: a track waiting to resume emits exact silence");
    assert!(b.track.playback_state_manager.playback_state() == crate::sound::PlaybackState::WaitingToResume && b.track.shared.state() == TrackPlaybackState::WaitingToResume, "C12.2d: still waiting after the chunk");
    kani::cover!(true);
    core::mem::forget(e); core::mem::forget(b);
}

// @ob id=C15.3b strength=bounded tier=quick timeout=800 bound="a spatial track (strength 3/4, linear attenuation) with empty storages, signal pre-loaded in `out`; listener arena of capacity 1 that is empty (the listener never existed or was removed); 2 frames" axioms=EXP10 fn=track/sub.rs::Track::process
// @req the track's listener id does not resolve
// @ens every output frame is exactly zero: a spatial track without a listener is silent
#[kani::proof]
#[kani::unwind(4)]
#[kani::stub(f32::powf, powf32_model)]
fn c15_3b_spatial_track_without_listener_is_silent() {
    let (clocks, c1) = Clocks::new(0);
    let (modulators, c2) = Modulators::new(0);
    let (listeners, c3) = Listeners::new(1);
    let (mut sends, c4) = ResourceStorage::<SendTrack>::new(0);
    let mut b = mk_track(2, Decibels(0.0), vec![], vec![], 0, 0, false);
    b.track.spatial_data = Some(spatial(Vec3::new(2.0, 0.0, 0.0), 0.75, Some(Easing::Linear)));
    let mut out = [Frame::new(0.5, 0.25), Frame::new(-0.5, 1.0)];
    b.track.process(&mut out, 1.0 / 48000.0, &clocks, &modulators, &listeners, None, &mut sends);
    assert!(out[0].left == 0.0 && out[0].right == 0.0 && out[1].left == 0.0 && out[1].right == 0.0, "C15.3b: a spatial track without a listener is silent");
    kani::cover!(true);
    core::mem::forget(b); core::mem::forget(clocks); core::mem::forget(modulators); core::mem::forget(listeners); core::mem::forget(sends);
    core::mem::forget(c1); core::mem::forget(c2); core::mem::forget(c3); core::mem::forget(c4);
}

// @ob id=C12.1c strength=bounded tier=disabled finding=F6 fn=track/sub.rs::Track::{process,read_commands,resume}
// @note disabled: CBMC aborts in propositional reduction on this harness (reported as out of memory with 45 GB free); the finding is witnessed by C12.1b together with the contract C03.2b (WaitingToResume -> Stopped when the clock is missing)
// @req witness for finding F6 through the real objects: a clock is created and removed again (its id is now stale); the track handle issues resume_at(that clock's time); one callback and one process follow
// @ens (expected to FAIL while F6 is present) the state reported for the track is one of the five track states and querying it does not panic
#[kani::proof]
#[kani::unwind(4)]
#[kani::stub(f32::powf, powf32_model)]
fn c12_1c_witness_f6_resume_at_removed_clock() {
    let (mut clocks, mut cctl) = Clocks::new(1);
    let key = cctl.try_reserve().unwrap();
    let id = crate::clock::ClockId(key);
    let (clock, handle) = crate::clock::Clock::new(Value::Fixed(crate::clock::ClockSpeed::TicksPerSecond(1.0)), id);
    cctl.insert_with_key(key, clock);
    clocks.on_start_processing();
    drop(handle); // marks the clock for removal
    clocks.on_start_processing();
    let (modulators, c2) = Modulators::new(0);
    let (listeners, c3) = Listeners::new(0);
    let (mut sends, c4) = ResourceStorage::<SendTrack>::new(0);
    let mut b = mk_track(1, Decibels(0.0), vec![], vec![], 0, 0, false);
    b.writers.resume.write((StartTime::ClockTime(crate::clock::ClockTime { clock: id, ticks: 1, fraction: 0.0 }), zero_tween()));
    b.track.read_commands();
    let mut out = [Frame::ZERO; 1];
    b.track.process(&mut out, 1.0 / 48000.0, &clocks, &modulators, &listeners, None, &mut sends);
    let s = b.track.shared.state();
    kani::cover!(s == TrackPlaybackState::Paused);
    core::mem::forget(b); core::mem::forget(clocks); core::mem::forget(cctl); core::mem::forget(modulators); core::mem::forget(listeners); core::mem::forget(sends);
    core::mem::forget(c2); core::mem::forget(c3); core::mem::forget(c4);
}
