//! C19.8 — Mapping::map clamps its input; C17 — mapping laws.
use super::*;
use crate::kani_support::*;

// @ob id=C19.8,C17.4 strength=axioms axioms=POW tier=quick fn=value.rs::Mapping::map
// @req input range (lo,hi) with lo != hi (normal or inverted), |lo|,|hi| <= 1e6, |hi-lo| >= 1e-6; output range (a,b) finite |.|<=1e6; every built-in easing; input x any non-NaN f64
// @ens map(x) == map(clamp(x, min(lo,hi), max(lo,hi))); x at or beyond lo gives exactly a, at or beyond hi gives exactly b; result within [min(a,b), max(a,b)]
#[kani::proof]
#[kani::unwind(8)]
#[kani::stub(f64::powf, powf64_model)]
#[kani::stub(f64::powi, powi64_model)]
fn c19_8_mapping_clamps() {
    let lo = any_f64_in(-1.0e6, 1.0e6);
    let hi = any_f64_in(-1.0e6, 1.0e6);
    kani::assume((hi - lo).abs() >= 1.0e-6);
    let a = any_f64_in(-1.0e6, 1.0e6);
    let b = any_f64_in(-1.0e6, 1.0e6);
    let m = Mapping { input_range: (lo, hi), output_range: (a, b), easing: any_easing() };
    let x: f64 = kani::any();
    kani::assume(!x.is_nan());
    let y = m.map(x);
    let (mn, mx) = if lo < hi { (lo, hi) } else { (hi, lo) };
    let xc = x.clamp(mn, mx);
    let yc = m.map(xc);
    assert!(y.to_bits() == yc.to_bits() || (y == yc), "C19.8: a mapping clamps its input to the input range");
    if (lo < hi && x <= lo) || (lo > hi && x >= lo) { assert!(y == a, "C19.8: at or beyond the range start the output is the first output bound"); }
    if (lo < hi && x >= hi) || (lo > hi && x <= hi) { assert!(y == b, "C19.8: at or beyond the range end the output is the second output bound"); }
    let (omn, omx) = if a < b { (a, b) } else { (b, a) };
    assert!(y >= omn - 1.0e-9 * (1.0 + omx.abs() + omn.abs()) && y <= omx + 1.0e-9 * (1.0 + omx.abs() + omn.abs()), "C19.8: output within the output range");
    kani::cover!(lo > hi && x > lo);
    kani::cover!(lo < hi && x > lo && x < hi);
}
