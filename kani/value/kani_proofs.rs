//! C19.8 / C17.4 — Mapping::map clamps its input; Value::raw_value.
// @deps info
use super::*;
use crate::kani_support::*;
use crate::info::kani_proofs::mock_info;

// @ob id=C19.8a,C17.4a strength=complete tier=quick fn=value.rs::Mapping::map
// @req input range (lo,hi), lo != hi, normal or inverted, |lo|,|hi| <= 1e6; any output range; any easing; input x any non-NaN f64; Easing::apply and f64::interpolate replaced by recording contract stubs (their contracts: C19.7, C06.5)
// @ens exactly one easing evaluation, at an amount in [0,1]; the amount is exactly 0 for inputs at or beyond the range start (also for inverted ranges); the end side is C19.8b; the result is interpolate(out_lo, out_hi, ease(amount))
#[kani::proof]
#[kani::unwind(8)]
#[kani::stub(crate::tween::Easing::apply, easing_apply_rec)]
#[kani::stub(<f64 as Tweenable>::interpolate, interpolate_f64_rec)]
fn c19_8a_mapping_clamps_input() {
    let lo = any_f64_in(-1.0e6, 1.0e6);
    let hi = any_f64_in(-1.0e6, 1.0e6);
    kani::assume(lo != hi);
    let a: f64 = kani::any();
    let b: f64 = kani::any();
    let m = Mapping { input_range: (lo, hi), output_range: (a, b), easing: any_easing() };
    let x: f64 = kani::any();
    kani::assume(!x.is_nan());
    let y = m.map(x);
    unsafe {
        assert!(EA_N == 1, "C19.8a: the easing is evaluated once");
        let amount = EA_X[0];
        assert!(amount >= 0.0 && amount <= 1.0, "C19.8a: the eased amount is clamped to [0,1]");
        if (lo < hi && x <= lo) || (lo > hi && x >= lo) { assert!(amount == 0.0, "C19.8a: at or beyond the range start the amount is exactly 0"); }
        assert!(IP_N == 1 && IP_A[0].to_bits() == a.to_bits() && IP_B[0].to_bits() == b.to_bits() && IP_T[0].to_bits() == EA_RET[0].to_bits(), "C19.8a: output = interpolate(out_lo, out_hi, ease(amount))");
        assert!(y.to_bits() == IP_RET[0].to_bits(), "C19.8a: and that is what map returns");
    }
    kani::cover!(lo > hi && x > lo);
    kani::cover!(lo < hi && x > lo && x < hi);
    kani::cover!(lo < hi && x > hi);
}

// @ob id=C19.8b,C17.4b strength=bounded tier=quick bound="lo, hi, x restricted to 4 significant mantissa bits, |.| <= 1e6" fn=value.rs::Mapping::map
// @req as C19.8a with reduced-precision range bounds and input
// @ens inputs at or beyond the range end give an amount of exactly 1 (normal and inverted ranges); inputs strictly inside give an amount strictly between... at least within [0,1]
#[kani::proof]
#[kani::unwind(8)]
#[kani::stub(crate::tween::Easing::apply, easing_apply_rec)]
#[kani::stub(<f64 as Tweenable>::interpolate, interpolate_f64_rec)]
fn c19_8b_mapping_clamps_end() {
    let m6 = (1u64 << 48) - 1;
    let lo = any_f64_in(-1.0e6, 1.0e6);
    let hi = any_f64_in(-1.0e6, 1.0e6);
    let x = any_f64_in(-1.0e7, 1.0e7);
    kani::assume(lo != hi && lo.to_bits() & m6 == 0 && hi.to_bits() & m6 == 0 && x.to_bits() & m6 == 0);
    let m = Mapping { input_range: (lo, hi), output_range: (0.0f64, 1.0f64), easing: Easing::Linear };
    let _ = m.map(x);
    unsafe {
        assert!(EA_N == 1, "C19.8b: one easing evaluation");
        if (lo < hi && x >= hi) || (lo > hi && x <= hi) { assert!(EA_X[0] == 1.0, "C19.8b: at or beyond the range end the amount is exactly 1"); }
        if (lo < hi && x <= lo) || (lo > hi && x >= lo) { assert!(EA_X[0] == 0.0, "C19.8b: at or beyond the range start the amount is exactly 0"); }
    }
    kani::cover!(lo > hi && x < hi);
    kani::cover!(lo < hi && x > hi);
}

// @ob id=C17.5b strength=complete tier=quick fn=value.rs::Value::raw_value
// @req a Fixed value; or a value linked to a modulator whose id resolves (any modulator value) / does not resolve; Mapping::map's callees stubbed as above
// @ens Fixed(v) => Some(v) exactly; linked and resolving => Some(map(modulator value)) computed in this very call; linked and not resolving => None (the caller then holds its last value)
#[kani::proof]
#[kani::unwind(8)]
#[kani::stub(crate::tween::Easing::apply, easing_apply_rec)]
#[kani::stub(<f64 as Tweenable>::interpolate, interpolate_f64_rec)]
fn c17_5b_value_raw_value() {
    let mv: f64 = kani::any();
    kani::assume(!mv.is_nan());
    let (info, _, mid) = mock_info(None, Some(mv));
    let id = mid.unwrap();
    let v: f64 = kani::any();
    let fixed = Value::Fixed(v).raw_value(&info);
    assert!(fixed.is_some() && fixed.unwrap().to_bits() == v.to_bits(), "C17.5b: a fixed value is itself");
    let m = Mapping { input_range: (0.0, 1.0), output_range: (kani::any::<f64>(), kani::any::<f64>()), easing: Easing::Linear };
    let live: bool = kani::any();
    let use_id = if live { id } else { let o = crate::modulator::ModulatorId(any_small_key(2)); kani::assume(o != id); o };
    let r = Value::FromModulator { id: use_id, mapping: m }.raw_value(&info);
    if live {
        unsafe { assert!(r.is_some() && IP_N == 1 && r.unwrap().to_bits() == IP_RET[0].to_bits(), "C17.5b: a linked value is the mapping of the modulator's current value"); }
    } else {
        assert!(r.is_none(), "C17.5b: a removed modulator yields None (hold the last value)");
    }
    kani::cover!(live);
    kani::cover!(!live);
    core::mem::forget(info);
}

// @ob id=C19.8c,C17.4c strength=bounded tier=quick bound="input ranges (0,8), (8,0) [inverted], (-1,1); output range (0,64) or (64,0); inputs from {-4, 0, 2, 4, 8, 12}; linear easing (all values dyadic, arithmetic exact)" fn=value.rs::Mapping::map
// @req grid values
// @ens map(x) = out_lo + (out_hi - out_lo) * clamp((x - in_lo)/(in_hi - in_lo), 0, 1), also for inverted input ranges: the range start maps to the first output bound, the range end to the second, inputs beyond either end to that end's bound, inputs inside are interpolated
#[kani::proof]
#[kani::unwind(8)]
fn c19_8c_mapping_grid() {
    let (lo, hi) = match kani::any::<u8>() % 3 { 0 => (0.0f64, 8.0f64), 1 => (8.0, 0.0), _ => (-1.0, 1.0) };
    let (a, b) = if kani::any() { (0.0f64, 64.0f64) } else { (64.0, 0.0) };
    let x = match kani::any::<u8>() % 6 { 0 => -4.0f64, 1 => 0.0, 2 => 2.0, 3 => 4.0, 4 => 8.0, _ => 12.0 };
    let m = Mapping { input_range: (lo, hi), output_range: (a, b), easing: Easing::Linear };
    let mut t = (x - lo) / (hi - lo);
    if t < 0.0 { t = 0.0; }
    if t > 1.0 { t = 1.0; }
    let want = a + (b - a) * t;
    assert!(m.map(x) == want, "C19.8c: a mapping clamps its input to the input range and interpolates inside it (also for inverted ranges)");
    kani::cover!(lo > hi && x == 2.0);
    kani::cover!(lo < hi && x == 12.0);
}
