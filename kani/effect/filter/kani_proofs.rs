//! C13 / C14 — the state-variable filter: one-step conformance with the Simper/Cytomic update equations.
// @deps info,parameter
use super::*;
use crate::kani_support::*;
use crate::info::kani_proofs::empty_info;
use crate::Value;

const DT: f64 = 1.0 / 32768.0; // sample rate 32768: 1/dt is exact

fn mk(mode: FilterMode, cutoff: f64, resonance: f64, mix: f32) -> Filter {
    let (w, r) = command_writers_and_readers();
    core::mem::forget(w);
    let b = FilterBuilder { mode, cutoff: Value::Fixed(cutoff), resonance: Value::Fixed(resonance), mix: Value::Fixed(Mix(mix)) };
    Filter::new(b, r)
}

fn any_mode() -> FilterMode {
    match kani::any::<u8>() % 4 { 0 => FilterMode::LowPass, 1 => FilterMode::BandPass, 2 => FilterMode::HighPass, _ => FilterMode::Notch }
}

// @ob id=C14.1a,C13.1a strength=bounded tier=quick bound="cutoff = sample_rate/4 (g = tan(pi/4), instantiated as exactly 1.0 within the TAN axioms), resonance 0 (k = 2); state and input on the dyadic grid k/8; mix in {0, 1}; all four modes" axioms=TAN fn=effect/filter.rs::<Filter as Effect>::process
// @req one frame; integrator states ic1eq, ic2eq and the input frame arbitrary grid values
// @ens the update is the cited trapezoidal SVF: a1 = 1/(1+g(g+k)), a2 = g a1, a3 = g a2, v3 = x - ic2, v1 = a1 ic1 + a2 v3, v2 = ic2 + a2 ic1 + a3 v3, ic1' = 2 v1 - ic1, ic2' = 2 v2 - ic2; low = v2, band = v1, high = x - k v1 - v2, notch = x - k v1 (exact on the grid); fully dry (mix 0) leaves the signal unchanged while the state still advances; both channels are processed identically
#[kani::proof]
#[kani::unwind(8)]
#[kani::stub(f64::tan, tan64_model)]
fn c14_1a_filter_svf_step() {
    let g = tan64_model(core::f64::consts::PI * 0.25);
    kani::assume(g == 1.0);
    let mode = any_mode();
    let wet: bool = kani::any();
    let mut f = mk(mode, 8192.0, 0.0, if wet { 1.0 } else { 0.0 });
    let (s1, s2, x) = (grid_frame(), grid_frame(), grid_frame());
    f.ic1eq = s1;
    f.ic2eq = s2;
    let mut buf = [x];
    let info = empty_info();
    f.process(&mut buf, DT, &info);
    // reference equations, left channel, exact dyadic arithmetic (a1 = a2 = a3 = 1/4, k = 2)
    let step = |ic1: f32, ic2: f32, x: f32| {
        let v3 = x - ic2;
        let v1 = ic1 * 0.25 + v3 * 0.25;
        let v2 = ic2 + ic1 * 0.25 + v3 * 0.25;
        (v1, v2, v1 * 2.0 - ic1, v2 * 2.0 - ic2)
    };
    let (v1l, v2l, n1l, n2l) = step(s1.left, s2.left, x.left);
    let (v1r, v2r, n1r, n2r) = step(s1.right, s2.right, x.right);
    assert!(f.ic1eq.left == n1l && f.ic2eq.left == n2l && f.ic1eq.right == n1r && f.ic2eq.right == n2r, "C14.1a: integrator states follow the trapezoidal SVF update");
    let pick = |v1: f32, v2: f32, x: f32| match mode { FilterMode::LowPass => v2, FilterMode::BandPass => v1, FilterMode::HighPass => x - v1 * 2.0 - v2, FilterMode::Notch => x - v1 * 2.0 };
    if wet {
        assert!(buf[0].left == pick(v1l, v2l, x.left) && buf[0].right == pick(v1r, v2r, x.right), "C14.1a: low/band/high/notch outputs of the SVF");
    } else {
        assert!(buf[0].left == x.left && buf[0].right == x.right, "C13.1a: a fully dry filter leaves the signal unchanged");
    }
    kani::cover!(wet && matches!(mode, FilterMode::HighPass));
    kani::cover!(!wet);
    core::mem::forget(info); core::mem::forget(f);
}

// @ob id=C13.1b,C01.7a strength=axioms axioms=TAN tier=quick fn=effect/filter.rs::<Filter as Effect>::process
// @req cleared state, silent input; any mode, any cutoff in [0, 1e6] Hz, any resonance in [-10, 10], any mix in [-1, 2], sample rate 32768
// @ens silence stays silent: output exactly 0 and the state stays exactly 0 (so it holds for any length by induction); no panic for out-of-range parameters (they are clamped)
#[kani::proof]
#[kani::unwind(8)]
#[kani::stub(f64::tan, tan64_model)]
fn c13_1b_filter_silence() {
    let mut f = mk(any_mode(), any_f64_in(0.0, 1.0e6), any_f64_in(-10.0, 10.0), any_f32_in(-1.0, 2.0));
    let mut buf = [Frame::ZERO];
    let info = empty_info();
    f.process(&mut buf, DT, &info);
    assert!(buf[0].left == 0.0 && buf[0].right == 0.0, "C13.1b: silence in, silence out");
    assert!(f.ic1eq.left == 0.0 && f.ic1eq.right == 0.0 && f.ic2eq.left == 0.0 && f.ic2eq.right == 0.0, "C13.1b: a cleared filter stays cleared");
    kani::cover!(true);
    core::mem::forget(info); core::mem::forget(f);
}

// @ob id=C11.2a,C13.1c strength=bounded tier=thorough timeout=7200 bound="cutoff = sample_rate/4 (g instantiated as 1.0), resonance 0, fully wet, all four modes; two grid input frames from an arbitrary grid state; one 2-frame call vs two 1-frame calls" axioms=TAN fn=effect/filter.rs::<Filter as Effect>::process
// @req two identical filters with fixed parameters
// @ens the outputs and the final integrator states are identical however the input is split into process calls
#[kani::proof]
#[kani::unwind(8)]
#[kani::stub(f64::tan, tan64_model)]
fn c11_2a_filter_chunk_independent() {
    let mode = any_mode();
    let mut a = mk(mode, 8192.0, 0.0, 1.0);
    let mut b = mk(mode, 8192.0, 0.0, 1.0);
    let (s1, s2) = (grid_frame(), grid_frame());
    a.ic1eq = s1; a.ic2eq = s2; b.ic1eq = s1; b.ic2eq = s2;
    let src = [grid_frame(), grid_frame()];
    let info = empty_info();
    let mut x = src;
    a.process(&mut x, DT, &info);
    let mut y = src;
    b.process(&mut y[0..1], DT, &info);
    b.process(&mut y[1..2], DT, &info);
    let g = tan64_model(core::f64::consts::PI * 0.25);
    kani::assume(g == 1.0);
    assert!(x[0].left == y[0].left && x[0].right == y[0].right && x[1].left == y[1].left && x[1].right == y[1].right, "C11.2a: the filter's output does not depend on how the input is split into process calls");
    assert!(a.ic1eq.left == b.ic1eq.left && a.ic2eq.left == b.ic2eq.left && a.ic1eq.right == b.ic1eq.right && a.ic2eq.right == b.ic2eq.right, "C11.2a: nor does its state");
    kani::cover!(x[1].left != 0.0);
    core::mem::forget(info); core::mem::forget(a); core::mem::forget(b);
}
