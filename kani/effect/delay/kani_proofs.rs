//! C13 / C14 / C16 — delay line.
// @deps info,parameter
use super::*;
use crate::kani_support::*;
use crate::info::kani_proofs::empty_info;
use crate::Value;

fn mk(delay_time: Duration, feedback: f32, mix: f32) -> Delay {
    let (w, r) = command_writers_and_readers();
    core::mem::forget(w);
    let b = DelayBuilder { delay_time, feedback: Value::Fixed(Decibels(feedback)), feedback_effects: vec![], mix: Value::Fixed(Mix(mix)) };
    Delay::new(b, r)
}

// @ob id=C14.6a,C16.3a strength=bounded tier=quick bound="delay time 2^-14 s at sample rates 32768 and 65536 (2 and 4 frames); internal buffer 4" fn=effect/delay.rs::<Delay as Effect>::{init,on_change_sample_rate}
// @req delay_time = 1/16384 s
// @ens the delay line holds floor(delay_time x sample_rate) frames after init and again after a sample-rate change (the delay keeps its value in seconds), and starts cleared
#[kani::proof]
#[kani::unwind(8)]
fn c14_6a_delay_length_follows_sample_rate() {
    let mut d = mk(Duration::from_secs_f64(1.0 / 16384.0 + 1.0e-9), 0.0, 0.5); // 2^-14 s plus 1 ns of slack for the Duration rounding
    d.init(32768, 4);
    assert!(d.buffer.len() == 2 && d.temp_buffer.len() == 4, "C14.6a: delay line of floor(delay time x sample rate) frames");
    assert!(d.buffer[0].left == 0.0 && d.buffer[1].right == 0.0, "C14.6a: starts cleared");
    d.on_change_sample_rate(65536);
    assert!(d.buffer.len() == 4, "C16.3a: after a sample-rate change the delay keeps its time in seconds");
    kani::cover!(true);
    core::mem::forget(d);
}

// @ob id=C14.6b,C13.6a strength=bounded tier=quick bound="delay of 2 frames, fully wet, feedback gain instantiated as exactly 0.5 (10^(-6.0206/20) within the EXP10 axioms); an impulse on the dyadic grid followed by silence, 6 one-frame calls" axioms=EXP10 fn=effect/delay.rs::<Delay as Effect>::process
// @req impulse x at frame 0
// @ens echoes appear exactly at multiples of the delay time (frames 2 and 4), each attenuated once more by the feedback gain (x/2, x/4); every other output frame is exact silence
#[kani::proof]
#[kani::unwind(8)]
#[kani::stub(f32::powf, powf32_model)]
fn c14_6b_delay_echoes() {
    let mut d = mk(Duration::from_secs_f64(1.0 / 16384.0 + 1.0e-9), -6.0206, 1.0);
    d.init(32768, 4);
    let x = grid_frame();
    let info = empty_info();
    let dt = 1.0 / 32768.0;
    let mut sig = [x, Frame::ZERO, Frame::ZERO, Frame::ZERO, Frame::ZERO, Frame::ZERO];
    let mut i = 0;
    while i < 6 { d.process(&mut sig[i..i + 1], dt, &info); i += 1; }
    // instantiate the feedback gain the model returned for 10^(-6.0206/20) as exactly 1/2 (functional memo: one value for all calls)
    let fb = powf32_model(10.0, -6.0206f32 / 20.0);
    kani::assume(fb == 0.5);
    assert!(sig[0].left == 0.0 && sig[0].right == 0.0 && sig[1].left == 0.0, "C14.6b: nothing before the first delay time has passed");
    assert!(sig[2].left == x.left * 0.5 && sig[2].right == x.right * 0.5 && sig[3].left == 0.0 && sig[3].right == 0.0, "C14.6b: first echo at exactly one delay time, attenuated by the feedback gain");
    assert!(sig[4].left == x.left * 0.25 && sig[4].right == x.right * 0.25 && sig[5].left == 0.0, "C14.6b: second echo at exactly two delay times, attenuated once more");
    kani::cover!(x.left != 0.0);
    core::mem::forget(info); core::mem::forget(d);
}

// @ob id=C13.6b,C11.3a strength=bounded tier=quick bound="delay of 2 frames, mix 0 (dry) or 1 (wet), feedback 0 dB; 3 grid frames processed as one 3-frame call vs three 1-frame calls" fn=effect/delay.rs::<Delay as Effect>::process
// @req identical delays fed the same three frames with different call partitions (3 > buffer length: the effect sub-chunks internally)
// @ens fully dry output equals the input; the outputs of the two partitions are identical frame by frame and so is the delay line afterwards (chunk independence)
#[kani::proof]
#[kani::unwind(8)]
#[kani::stub(f32::powf, powf32_model)]
fn c13_6b_delay_dry_and_chunk_independent() {
    let wet: bool = kani::any();
    let mix = if wet { 1.0 } else { 0.0 };
    let mut d1 = mk(Duration::from_secs_f64(1.0 / 16384.0 + 1.0e-9), 0.0, mix);
    let mut d2 = mk(Duration::from_secs_f64(1.0 / 16384.0 + 1.0e-9), 0.0, mix);
    d1.init(32768, 4);
    d2.init(32768, 4);
    let src = [grid_frame(), grid_frame(), grid_frame()];
    let info = empty_info();
    let dt = 1.0 / 32768.0;
    let mut a = src;
    d1.process(&mut a, dt, &info);
    let mut b = src;
    let mut i = 0;
    while i < 3 { d2.process(&mut b[i..i + 1], dt, &info); i += 1; }
    let mut i = 0;
    while i < 3 {
        assert!(a[i].left == b[i].left && a[i].right == b[i].right, "C11.3a: the delay's output does not depend on how the input is split into process calls");
        if !wet { assert!(a[i].left == src[i].left && a[i].right == src[i].right, "C13.6b: a fully dry delay leaves the signal unchanged"); }
        i += 1;
    }
    assert!(d1.buffer[0].left == d2.buffer[0].left && d1.buffer[1].left == d2.buffer[1].left && d1.buffer[0].right == d2.buffer[0].right && d1.buffer[1].right == d2.buffer[1].right, "C11.3a: and neither does its state");
    if wet { assert!(a[2].left == src[0].left && a[0].left == 0.0, "C14.6b: wet output is the input two frames earlier"); }
    kani::cover!(wet);
    kani::cover!(!wet);
    core::mem::forget(info); core::mem::forget(d1); core::mem::forget(d2);
}

// @ob id=C01.8a strength=bounded tier=quick finding=F4 fn=effect/delay.rs::<Delay as Effect>::{init,process}
// @req witness for finding F4: a delay time shorter than one frame at the device sample rate (including zero)
// @ens (expected to FAIL while F4 is present) process does not panic
#[kani::proof]
#[kani::unwind(8)]
#[kani::stub(f32::powf, powf32_model)]
fn c01_8a_witness_f4_zero_length_delay() {
    let mut d = mk(Duration::ZERO, -6.0, 0.5);
    d.init(48000, 2);
    let mut a = [Frame::ZERO; 1];
    let info = empty_info();
    d.process(&mut a, 1.0 / 48000.0, &info);
    kani::cover!(true);
    core::mem::forget(info); core::mem::forget(d);
}

fn delay_with_probe() -> Delay {
    let (w, r) = command_writers_and_readers();
    core::mem::forget(w);
    let b = DelayBuilder { delay_time: Duration::from_secs_f64(1.0 / 16384.0 + 1.0e-9), feedback: Value::Fixed(Decibels(0.0)), feedback_effects: vec![Box::new(ProbeEffect { id: 0, gain: 0.5, add: 0.0 })], mix: Value::Fixed(Mix(1.0)) };
    Delay::new(b, r)
}

// @ob id=C16.3c strength=bounded tier=quick bound="a delay of 2 frames with one probe effect in its feedback loop; rates 32768 -> 65536" fn=effect/delay.rs::<Delay as Effect>::{init,on_change_sample_rate,on_start_processing}
// @req a delay whose feedback loop holds an effect
// @ens the nested effect is initialised with the device rate, told every new rate (effects inside a delay's feedback loop process with the rate in force) and started at every callback
#[kani::proof]
#[kani::unwind(8)]
fn c16_3c_delay_feedback_effects_follow_the_rate() {
    let mut d = delay_with_probe();
    d.init(32768, 4);
    unsafe { assert!(PE_RATE[0] == 32768, "C16.3c: nested effects are initialised with the device rate"); }
    d.on_start_processing();
    unsafe { assert!(PE_START[0] == 1, "C16.3c: nested effects are started at every callback"); }
    d.on_change_sample_rate(65536);
    unsafe { assert!(PE_RATE[0] == 65536, "C16.3c: effects inside a delay's feedback loop are told the new sample rate"); }
    assert!(d.buffer.len() == 4, "C16.3a: and the delay line is re-sized");
    kani::cover!(true);
    core::mem::forget(d);
}

// @ob id=C14.6c strength=bounded tier=quick bound="as C16.3c; one 3-frame call (two sub-chunks of the 2-frame line)" axioms=EXP10 fn=effect/delay.rs::<Delay as Effect>::process
// @req a delay whose feedback loop holds an effect; one call longer than the delay line
// @ens the feedback effects see every delayed frame exactly once (one call per sub-chunk, lengths summing to the input length)
#[kani::proof]
#[kani::unwind(8)]
#[kani::stub(f32::powf, powf32_model)]
fn c14_6c_delay_feedback_effects_see_every_frame_once() {
    let mut d = delay_with_probe();
    d.init(32768, 4);
    let mut a = [grid_frame(), grid_frame(), grid_frame()];
    let info = empty_info();
    d.process(&mut a, 1.0 / 32768.0, &info);
    unsafe { assert!(PE_CALLS[0] == 2 && PE_FRAMES[0] == 3, "C14.6c: the feedback effects see every delayed frame exactly once (one call per sub-chunk)"); }
    kani::cover!(true);
    core::mem::forget(info); core::mem::forget(d);
}
