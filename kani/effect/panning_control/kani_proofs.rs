//! C13 / C14 — panning control.
// @deps info,parameter
use super::*;
use crate::kani_support::*;
use crate::info::kani_proofs::empty_info;
use crate::Value;

// @ob id=C13.5a,C14.5a strength=complete tier=quick fn=effect/panning_control.rs::<PanningControl as Effect>::process
// @req one frame, any finite input; panning centre, hard left (<= -1) or hard right (>= 1)
// @ens centre is the identity (bit-exact); hard left silences the right channel, hard right the left channel (equal-power law end points)
#[kani::proof]
#[kani::unwind(8)]
fn c13_5a_panning_control() {
    let p = match kani::any::<u8>() % 3 { 0 => 0.0f32, 1 => any_f32_in(-4.0, -1.0), _ => any_f32_in(1.0, 4.0) };
    let (w, r) = command_writers_and_readers();
    let mut c = PanningControl::new(PanningControlBuilder(Value::Fixed(Panning(p))), r);
    let x = Frame::new(any_finite32(), any_finite32());
    let mut buf = [x];
    let info = empty_info();
    c.process(&mut buf, 1.0 / 48000.0, &info);
    if p == 0.0 { assert!(buf[0].left.to_bits() == x.left.to_bits() && buf[0].right.to_bits() == x.right.to_bits(), "C13.5a: centre panning is the identity"); }
    else if p < 0.0 { assert!(buf[0].right == 0.0, "C14.5a: hard left silences the right channel"); }
    else { assert!(buf[0].left == 0.0, "C14.5a: hard right silences the left channel"); }
    kani::cover!(p > 1.0);
    core::mem::forget(info); core::mem::forget(c); core::mem::forget(w);
}

// @ob id=C13.5b strength=bounded tier=quick bound="chunks of 1, 2 and 3 frames; centre panning; grid input" fn=effect/panning_control.rs::<PanningControl as Effect>::process
// @req centre panning, a chunk of n frames, n in {1, 2, 3}
// @ens the identity for every chunk length (also a one-frame chunk)
#[kani::proof]
#[kani::unwind(8)]
fn c13_5b_panning_control_any_chunk_length() {
    let (w, r) = command_writers_and_readers();
    let mut c = PanningControl::new(PanningControlBuilder(Value::Fixed(Panning(0.0))), r);
    let n: usize = kani::any();
    kani::assume(n >= 1 && n <= 3);
    let x = [grid_frame(), grid_frame(), grid_frame()];
    let mut buf = x;
    let info = empty_info();
    c.process(&mut buf[..n], 1.0 / 48000.0, &info);
    let mut i = 0;
    while i < 3 { assert!(buf[i].left == x[i].left && buf[i].right == x[i].right, "C13.5b: centre panning is the identity for every chunk length"); i += 1; }
    kani::cover!(n == 1);
    core::mem::forget(info); core::mem::forget(c); core::mem::forget(w);
}
