//! C13 / C14 — volume control.
// @deps info,parameter
use super::*;
use crate::kani_support::*;
use crate::info::kani_proofs::empty_info;
use crate::Value;

// @ob id=C13.4a,C14.4a strength=axioms axioms=EXP10 tier=quick fn=effect/volume_control.rs::<VolumeControl as Effect>::process
// @req two frames, any finite input (|x| <= 1e6); volume 0 dB, or <= -60 dB, or any other level in (-60, 24] dB
// @ens 0 dB is the identity; -60 dB or less gives exact silence; otherwise every sample is scaled by one non-negative gain: signs are kept and a boost never attenuates / a cut never amplifies
#[kani::proof]
#[kani::unwind(8)]
#[kani::stub(f32::powf, powf32_model)]
fn c13_4a_volume_control() {
    let db = match kani::any::<u8>() % 3 { 0 => 0.0, 1 => any_f32_in(-200.0, -60.0), _ => any_f32_in(-59.9, 24.0) };
    let (w, r) = command_writers_and_readers();
    let mut v = VolumeControl::new(VolumeControlBuilder(Value::Fixed(Decibels(db))), r);
    let x = [Frame::new(any_f32_in(-1.0e6, 1.0e6), any_f32_in(-1.0e6, 1.0e6)), Frame::new(any_f32_in(-1.0e6, 1.0e6), 0.5)];
    let mut buf = x;
    let info = empty_info();
    v.process(&mut buf, 1.0 / 48000.0, &info);
    if db == 0.0 {
        assert!(buf[0].left == x[0].left && buf[0].right == x[0].right && buf[1].left == x[1].left && buf[1].right == 0.5, "C13.4a: 0 dB volume is the identity");
    } else if db <= -60.0 {
        assert!(buf[0].left == 0.0 && buf[0].right == 0.0 && buf[1].left == 0.0 && buf[1].right == 0.0, "C14.4a: -60 dB or less is exact silence");
    } else {
        let gain = buf[1].right / 0.5;
        assert!(gain >= 0.0, "C14.4a: the decibel law yields a non-negative gain");
        assert!((db > 0.0 || gain <= 1.0) && (db < 0.0 || gain >= 1.0), "C14.4a: cuts attenuate, boosts amplify");
        assert!((buf[0].left >= 0.0) == (x[0].left >= 0.0) || buf[0].left == 0.0, "C14.4a: the sign of the signal is kept");
    }
    kani::cover!(db == 0.0);
    kani::cover!(db > 0.0);
    core::mem::forget(info); core::mem::forget(v); core::mem::forget(w);
}

// @ob id=C13.4b,C11.5a strength=bounded tier=quick bound="chunks of 1, 2 and 3 frames; volume 0 dB or -60 dB; grid input" axioms=EXP10 fn=effect/volume_control.rs::<VolumeControl as Effect>::process
// @req a fixed volume; the same frames processed as one chunk of n frames, n in {1, 2, 3} (a one-frame chunk is what a callback remainder produces)
// @ens every frame of every chunk length is finite and equals the input at 0 dB / exact silence at -60 dB: the result does not depend on the chunk length, in particular not for a single-frame chunk
#[kani::proof]
#[kani::unwind(8)]
#[kani::stub(f32::powf, powf32_model)]
fn c13_4b_volume_control_any_chunk_length() {
    let unity: bool = kani::any();
    let (w, r) = command_writers_and_readers();
    let mut v = VolumeControl::new(VolumeControlBuilder(Value::Fixed(Decibels(if unity { 0.0 } else { -60.0 }))), r);
    let n: usize = kani::any();
    kani::assume(n >= 1 && n <= 3);
    let x = [grid_frame(), grid_frame(), grid_frame()];
    let mut buf = x;
    let info = empty_info();
    v.process(&mut buf[..n], 1.0 / 48000.0, &info);
    let mut i = 0;
    while i < 3 {
        let want = if i >= n || unity { x[i] } else { Frame::ZERO };
        assert!(buf[i].left == want.left && buf[i].right == want.right, "C13.4b: volume control is independent of the chunk length (also for a one-frame chunk)");
        i += 1;
    }
    kani::cover!(n == 1 && unity);
    kani::cover!(n == 3 && !unity);
    core::mem::forget(info); core::mem::forget(v); core::mem::forget(w);
}
