//! C13 / C14 — distortion.
// @deps info,parameter
use super::*;
use crate::kani_support::*;
use crate::info::kani_proofs::empty_info;
use crate::Value;

fn mk(kind: DistortionKind, drive: f32, mix: f32) -> Distortion {
    let (w, r) = command_writers_and_readers();
    core::mem::forget(w);
    Distortion { command_readers: r, kind, drive: Parameter::new(Value::Fixed(Decibels(drive)), Decibels::IDENTITY), mix: Parameter::new(Value::Fixed(Mix(mix)), Mix(1.0)) }
}

// @ob id=C14.3a,C13.3a strength=complete tier=quick fn=effect/distortion.rs::<Distortion as Effect>::process
// @req hard clip at 0 dB drive, fully wet; input any finite f32 pair
// @ens |x| <= 1 passes unchanged (transparent below full scale); |x| > 1 is clipped to exactly +/-1 (hard-clips at unit level)
#[kani::proof]
#[kani::unwind(8)]
#[kani::stub(f32::powf, powf32_model)]
fn c14_3a_hard_clip() {
    let mut d = mk(DistortionKind::HardClip, 0.0, 1.0);
    let x = Frame::new(any_finite32(), any_finite32());
    let mut buf = [x];
    let info = empty_info();
    d.process(&mut buf, 1.0 / 48000.0, &info);
    let want = |v: f32| if v > 1.0 { 1.0 } else if v < -1.0 { -1.0 } else { v };
    assert!(buf[0].left == want(x.left) && buf[0].right == want(x.right), "C14.3a: hard clip at 0 dB drive: identity below full scale, +/-1 above");
    kani::cover!(x.left > 1.0);
    kani::cover!(x.left.abs() < 1.0 && x.left != 0.0);
    core::mem::forget(info); core::mem::forget(d);
}

// @ob id=C13.3b strength=complete tier=quick fn=effect/distortion.rs::<Distortion as Effect>::process
// @req either kind, drive 0 dB, fully dry (mix 0, also mix below 0: clamped); input finite with |x| <= 1e6
// @ens the signal is unchanged
#[kani::proof]
#[kani::unwind(8)]
#[kani::stub(f32::powf, powf32_model)]
fn c13_3b_distortion_dry_identity() {
    let kind = if kani::any() { DistortionKind::HardClip } else { DistortionKind::SoftClip };
    let mut d = mk(kind, 0.0, if kani::any() { 0.0 } else { -0.5 });
    let x = Frame::new(any_f32_in(-1.0e6, 1.0e6), any_f32_in(-1.0e6, 1.0e6));
    let mut buf = [x];
    let info = empty_info();
    d.process(&mut buf, 1.0 / 48000.0, &info);
    assert!(buf[0].left == x.left && buf[0].right == x.right, "C13.3b: a fully dry distortion leaves the signal unchanged");
    kani::cover!(matches!(kind, DistortionKind::SoftClip));
    core::mem::forget(info); core::mem::forget(d);
}

// @ob id=C14.3c strength=bounded tier=quick bound="soft clip, 0 dB drive, fully wet; input on the dyadic grid k/8, |k| <= 16" fn=effect/distortion.rs::<Distortion as Effect>::process
// @req grid input
// @ens output == x / (1 + |x|) (one f32 division), odd-symmetric, |output| < 1 and |output| <= |x|
#[kani::proof]
#[kani::unwind(8)]
#[kani::stub(f32::powf, powf32_model)]
fn c14_3c_soft_clip_grid() {
    let mut d = mk(DistortionKind::SoftClip, 0.0, 1.0);
    let x = grid_frame();
    let mut buf = [x];
    let info = empty_info();
    d.process(&mut buf, 1.0 / 48000.0, &info);
    assert!(buf[0].left == x.left / (1.0 + x.left.abs()) && buf[0].right == x.right / (1.0 + x.right.abs()), "C14.3c: soft clip is x / (1 + |x|)");
    assert!(buf[0].left.abs() < 1.0 && buf[0].left.abs() <= x.left.abs(), "C14.3c: bounded by 1 and never louder than the input");
    kani::cover!(x.left == 2.0);
    core::mem::forget(info); core::mem::forget(d);
}
