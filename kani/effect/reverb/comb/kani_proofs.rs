//! C14 — Freeverb comb filter cell.
use super::*;
use crate::kani_support::*;

pub(crate) fn len_of(f: &CombFilter) -> usize { f.buffer.len() }
pub(crate) fn set_current(f: &mut CombFilter, v: f32) { let i = f.current_index; f.buffer[i] = v; }
pub(crate) fn state_is_zero(f: &CombFilter) -> bool { f.filter_store == 0.0 && f.buffer[f.current_index] == 0.0 }

// @ob id=C14.7a,C13.7a strength=bounded tier=quick bound="buffer of 2 cells; cell contents, filter store and input on the dyadic grid k/8; damping in {0, 1/2}, feedback in {1/2, 1}" fn=effect/reverb/comb.rs::CombFilter::process
// @req any grid state
// @ens Freeverb comb: y = buf[i]; store' = y (1 - damp) + store damp; buf[i] = x + store' feedback; the index advances by one modulo the length; only cell i changes; zero state and zero input give zero (silence)
#[kani::proof]
#[kani::unwind(4)]
fn c14_7a_comb_cell() {
    let mut c = CombFilter::new(2);
    assert!(c.buffer.len() == 2 && c.buffer[0] == 0.0 && c.filter_store == 0.0 && c.current_index == 0, "C14.7a: a new comb is cleared");
    let (b0, b1, st, x) = (grid_sample(), grid_sample(), grid_sample(), grid_sample());
    let idx: usize = if kani::any() { 0 } else { 1 };
    c.buffer[0] = b0; c.buffer[1] = b1; c.filter_store = st; c.current_index = idx;
    let damp = if kani::any() { 0.0 } else { 0.5 };
    let fb = if kani::any() { 0.5 } else { 1.0 };
    let y = c.process(x, fb, damp);
    let old = if idx == 0 { b0 } else { b1 };
    let store = old * (1.0 - damp) + st * damp;
    assert!(y == old, "C14.7a: the comb outputs the delayed cell");
    assert!(c.filter_store == store, "C14.7a: one-pole damping of the feedback path");
    assert!(c.buffer[idx] == x + store * fb && c.buffer[1 - idx] == if idx == 0 { b1 } else { b0 }, "C14.7a: the cell is rewritten with input + damped feedback; the other cell is untouched");
    assert!(c.current_index == (idx + 1) % 2, "C14.7a: the index advances modulo the length");
    kani::cover!(idx == 1);
}
