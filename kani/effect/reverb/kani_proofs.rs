//! C14 / C16 — Freeverb network sizes.
// @deps info,parameter,effect/reverb/comb,effect/reverb/all_pass
use super::*;
use crate::kani_support::*;
use crate::Value;
use super::comb::kani_proofs::len_of as clen;
use super::all_pass::kani_proofs::len_of as alen;

// @ob id=C14.7c,C16.3b strength=bounded tier=quick bound="sample rates 44100 and 88200" fn=effect/reverb.rs::Reverb::{init_filters,on_change_sample_rate}
// @req a reverb initialised at 44100 Hz, then switched to 88200 Hz
// @ens 8 comb pairs and 4 all-pass pairs per channel with the Freeverb tunings (1116,1188,1277,1356,1422,1491,1557,1617 / 556,441,341,225), the right channel 23 cells longer (stereo spread); at twice the reference rate every size doubles (sizes scale with sample_rate/44100)
#[kani::proof]
#[kani::unwind(10)]
fn c14_7c_reverb_network_sizes() {
    let (w, r) = command_writers_and_readers();
    core::mem::forget(w);
    let mut rv = Reverb::new(ReverbBuilder::new(), r);
    assert!(matches!(rv.state, ReverbState::Uninitialized), "C14.7c: a reverb is uninitialised until init");
    rv.init(44100, 4);
    let combs = [1116usize, 1188, 1277, 1356, 1422, 1491, 1557, 1617];
    let aps = [556usize, 441, 341, 225];
    if let ReverbState::Initialized { comb_filters, all_pass_filters } = &rv.state {
        let mut i = 0;
        while i < 8 { assert!(clen(&comb_filters[i].0) == combs[i] && clen(&comb_filters[i].1) == combs[i] + 23, "C14.7c: comb tunings and stereo spread"); i += 1; }
        let mut i = 0;
        while i < 4 { assert!(alen(&all_pass_filters[i].0) == aps[i] && alen(&all_pass_filters[i].1) == aps[i] + 23, "C14.7c: all-pass tunings and stereo spread"); i += 1; }
    } else { assert!(false, "C14.7c: initialised"); }
    rv.on_change_sample_rate(88200);
    if let ReverbState::Initialized { comb_filters, all_pass_filters } = &rv.state {
        assert!(clen(&comb_filters[0].0) == 2232 && clen(&comb_filters[7].1) == 2 * (1617 + 23) && alen(&all_pass_filters[3].0) == 450, "C16.3b: sizes scale with the sample rate");
    } else { assert!(false); }
    kani::cover!(true);
    core::mem::forget(rv);
}

use crate::info::kani_proofs::empty_info;
use super::comb::kani_proofs::set_current;

// @ob id=C14.7d,C13.7c strength=bounded tier=quick timeout=2400 bound="reverb initialised at 441 Hz (buffers of 2..16 cells), stereo width 1, fully wet; the current cell of each of the 16 comb filters pre-loaded with a dyadic grid value, everything else cleared; one grid input frame" fn=effect/reverb.rs::<Reverb as Effect>::process
// @req one frame
// @ens Freeverb topology: the left output is the sum of the 8 left comb outputs passed through the 4 left all-passes in series (each inverts a cleared cell's input: four inversions cancel), the right output likewise from the right filters; at stereo width 1 there is no cross-feed; fully wet adds none of the input
#[kani::proof]
#[kani::unwind(20)]
fn c14_7d_reverb_topology() {
    let (w, r) = command_writers_and_readers();
    core::mem::forget(w);
    let mut b = ReverbBuilder::new();
    b.mix = Value::Fixed(Mix(1.0));
    b.stereo_width = Value::Fixed(1.0);
    let mut rv = Reverb::new(b, r);
    rv.init(441, 2);
    let mut sum_l = 0.0f32;
    let mut sum_r = 0.0f32;
    if let ReverbState::Initialized { comb_filters, .. } = &mut rv.state {
        let mut i = 0;
        while i < 8 {
            let (l, r) = (grid_sample(), grid_sample());
            set_current(&mut comb_filters[i].0, l);
            set_current(&mut comb_filters[i].1, r);
            sum_l += l;
            sum_r += r;
            i += 1;
        }
    }
    let x = grid_frame();
    let mut buf = [x];
    let info = empty_info();
    rv.process(&mut buf, 1.0 / 441.0, &info);
    assert!(buf[0].left == sum_l && buf[0].right == sum_r, "C14.7d: eight parallel combs summed, then four series all-passes, per channel, no cross-feed at width 1");
    kani::cover!(sum_l != sum_r);
    core::mem::forget(info); core::mem::forget(rv);
}
