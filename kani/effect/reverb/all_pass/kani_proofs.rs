//! C14 — Freeverb all-pass cell.
use super::*;
use crate::kani_support::*;

pub(crate) fn len_of(f: &AllPassFilter) -> usize { f.buffer.len() }

// @ob id=C14.7b,C13.7b strength=bounded tier=quick bound="buffer of 2 cells, grid contents and input" fn=effect/reverb/all_pass.rs::AllPassFilter::process
// @req any grid state
// @ens Freeverb all-pass with feedback 1/2: out = -x + buf[i]; buf[i] = x + buf[i]/2; index advances modulo the length; other cell untouched
#[kani::proof]
#[kani::unwind(4)]
fn c14_7b_all_pass_cell() {
    let mut a = AllPassFilter::new(2);
    let (b0, b1, x) = (grid_sample(), grid_sample(), grid_sample());
    let idx: usize = if kani::any() { 0 } else { 1 };
    a.buffer[0] = b0; a.buffer[1] = b1; a.current_index = idx;
    let y = a.process(x);
    let old = if idx == 0 { b0 } else { b1 };
    assert!(y == -x + old, "C14.7b: all-pass output");
    assert!(a.buffer[idx] == x + old * 0.5 && a.buffer[1 - idx] == if idx == 0 { b1 } else { b0 }, "C14.7b: all-pass cell update with feedback 0.5");
    assert!(a.current_index == (idx + 1) % 2, "C14.7b: index advances modulo the length");
    kani::cover!(idx == 1);
}
