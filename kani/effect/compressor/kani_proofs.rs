//! C13 / C14 — compressor.
// @deps info,parameter
use super::*;
use crate::kani_support::*;
use crate::info::kani_proofs::empty_info;
use crate::Value;

fn mk(threshold: f64, ratio: f64, makeup: f32, mix: f32) -> Compressor {
    let (w, r) = command_writers_and_readers();
    core::mem::forget(w);
    let mut b = CompressorBuilder::new();
    b.threshold = Value::Fixed(threshold);
    b.ratio = Value::Fixed(ratio);
    b.makeup_gain = Value::Fixed(Decibels(makeup));
    b.mix = Value::Fixed(Mix(mix));
    Compressor::new(b, r)
}

// @ob id=C14.8a,C13.8a strength=axioms axioms=LOG10,EXP,EXP10 tier=quick fn=effect/compressor.rs::<Compressor as Effect>::process
// @req threshold 0 dB, ratio in [1, 20], no makeup gain, fully wet; relaxed envelope (0); input with |x| <= 1 (at or below threshold), including exact silence
// @ens a signal below the threshold is left unchanged and the envelope stays at 0
#[kani::proof]
#[kani::unwind(8)]
#[kani::stub(f32::powf, powf32_model)]
#[kani::stub(f32::log10, log10_32_model)]
#[kani::stub(f64::exp, exp64_model)]
fn c14_8a_compressor_below_threshold() {
    let mut c = mk(0.0, any_f64_in(1.0, 20.0), 0.0, 1.0);
    let x = Frame::new(any_f32_in(-1.0, 1.0), any_f32_in(-1.0, 1.0));
    let mut buf = [x];
    let info = empty_info();
    c.process(&mut buf, 1.0 / 48000.0, &info);
    assert!(buf[0].left == x.left && buf[0].right == x.right, "C14.8a: below the threshold the compressor leaves the signal unchanged");
    assert!(c.envelope_follower[0] == 0.0 && c.envelope_follower[1] == 0.0, "C14.8a: and its envelope stays relaxed");
    kani::cover!(x.left == 0.0);
    kani::cover!(x.left.abs() > 0.5);
    core::mem::forget(info); core::mem::forget(c);
}

// @ob id=C14.8b strength=axioms axioms=LOG10,EXP,EXP10 tier=quick fn=effect/compressor.rs::<Compressor as Effect>::process
// @req threshold -20 dB, ratio in [1, 20], fully wet, no makeup; envelope in [0, 40] dB; input 1 <= |x| <= 8 (above threshold)
// @ens the envelope stays non-negative; gain reduction never amplifies: |out| <= |x| and the sign is kept
#[kani::proof]
#[kani::unwind(8)]
#[kani::stub(f32::powf, powf32_model)]
#[kani::stub(f32::log10, log10_32_model)]
#[kani::stub(f64::exp, exp64_model)]
fn c14_8b_compressor_above_threshold() {
    let mut c = mk(-20.0, any_f64_in(1.0, 20.0), 0.0, 1.0);
    let e0 = any_f32_in(0.0, 40.0);
    c.envelope_follower = [e0, e0];
    let x = Frame::new(any_f32_in(1.0, 8.0), any_f32_in(-8.0, -1.0));
    let mut buf = [x];
    let info = empty_info();
    c.process(&mut buf, 1.0 / 48000.0, &info);
    assert!(c.envelope_follower[0] >= 0.0 && c.envelope_follower[1] >= 0.0, "C14.8b: the envelope stays non-negative");
    assert!(buf[0].left >= 0.0 && buf[0].left <= x.left && buf[0].right <= 0.0 && buf[0].right >= x.right, "C14.8b: compression never amplifies and keeps the sign");
    kani::cover!(e0 > 0.0);
    core::mem::forget(info); core::mem::forget(c);
}

// @ob id=C13.8c strength=axioms axioms=LOG10,EXP,EXP10 tier=quick fn=effect/compressor.rs::<Compressor as Effect>::process
// @req any threshold in [-60, 0], ratio in [1, 20], makeup in [-12, 12] dB, fully dry; envelope in [0, 40]; finite nonzero-or-zero input |x| <= 8
// @ens fully dry leaves the signal unchanged
#[kani::proof]
#[kani::unwind(8)]
#[kani::stub(f32::powf, powf32_model)]
#[kani::stub(f32::log10, log10_32_model)]
#[kani::stub(f64::exp, exp64_model)]
fn c13_8c_compressor_dry_identity() {
    let mut c = mk(any_f64_in(-60.0, 0.0), any_f64_in(1.0, 20.0), any_f32_in(-12.0, 12.0), 0.0);
    let e0 = any_f32_in(0.0, 40.0);
    c.envelope_follower = [e0, e0];
    let x = Frame::new(any_f32_in(-8.0, 8.0), any_f32_in(-8.0, 8.0));
    let mut buf = [x];
    let info = empty_info();
    c.process(&mut buf, 1.0 / 48000.0, &info);
    assert!(buf[0].left == x.left && buf[0].right == x.right, "C13.8c: a fully dry compressor leaves the signal unchanged");
    kani::cover!(x.left != 0.0);
    core::mem::forget(info); core::mem::forget(c);
}
