//! C13 / C14 — EQ filter: 0 dB gain is the identity; bell coefficients at one exact parameter point.
// @deps info,parameter
use super::*;
use crate::kani_support::*;
use crate::info::kani_proofs::empty_info;
use crate::Value;

const DT: f64 = 1.0 / 32768.0;

fn mk(kind: EqFilterKind, frequency: f64, gain: f32, q: f64) -> EqFilter {
    let (w, r) = command_writers_and_readers();
    core::mem::forget(w);
    let b = EqFilterBuilder { kind, frequency: Value::Fixed(frequency), gain: Value::Fixed(Decibels(gain)), q: Value::Fixed(q) };
    EqFilter::new(b, r)
}

fn any_kind() -> EqFilterKind { match kani::any::<u8>() % 3 { 0 => EqFilterKind::Bell, 1 => EqFilterKind::LowShelf, _ => EqFilterKind::HighShelf } }

// @ob id=C13.2a,C14.2a strength=bounded tier=quick bound="frequency = sample_rate/4 (g = tan(pi/4) instantiated as 1.0), q = 1/2 (k = 2), gain 0 dB (10^0 = 1 exactly by the EXP10 axioms); state and input on the dyadic grid k/8; all three kinds" axioms=TAN,EXP10 fn=effect/eq_filter.rs::{<EqFilter as Effect>::process,Coefficients::calculate}
// @req one frame, arbitrary grid state and input
// @ens a 0 dB bell / low shelf / high shelf is the identity on the signal (m0 = 1, m1 = m2 = 0) while the integrators advance by the SVF update (a1 = a2 = a3 = 1/4)
#[kani::proof]
#[kani::unwind(8)]
#[kani::stub(f64::tan, tan64_model)]
#[kani::stub(f64::powf, powf64_model)]
fn c13_2a_eq_zero_gain_identity() {
    let g = tan64_model(core::f64::consts::PI * 0.25);
    kani::assume(g == 1.0);
    let mut f = mk(any_kind(), 8192.0, 0.0, 0.5);
    let (s1, s2, x) = (grid_frame(), grid_frame(), grid_frame());
    f.ic1eq = s1;
    f.ic2eq = s2;
    let mut buf = [x];
    let info = empty_info();
    f.process(&mut buf, DT, &info);
    assert!(buf[0].left == x.left && buf[0].right == x.right, "C13.2a: an EQ band at 0 dB leaves the signal unchanged");
    let v3 = x.left - s2.left;
    let v1 = s1.left * 0.25 + v3 * 0.25;
    let v2 = s2.left + s1.left * 0.25 + v3 * 0.25;
    assert!(f.ic1eq.left == v1 * 2.0 - s1.left && f.ic2eq.left == v2 * 2.0 - s2.left, "C14.2a: integrator update of the SvfLinearTrapOptimised2 form");
    kani::cover!(x.left != 0.0);
    core::mem::forget(info); core::mem::forget(f);
}

// @ob id=C14.2b strength=bounded tier=quick bound="bell, frequency = sample_rate/4 (g = 1), linear gain A instantiated as 2.0 (10^(gain/40) for gain 12 dB within the EXP10 axioms), q = 1/4 (k = 1/(qA) = 2); grid state and input" axioms=TAN,EXP10 fn=effect/eq_filter.rs::{<EqFilter as Effect>::process,Coefficients::calculate}
// @req one frame, arbitrary grid state and input
// @ens bell output = x + k (A^2 - 1) v1 = x + 6 v1 with v1 = (ic1 + x - ic2)/4 (m0 = 1, m1 = k(A^2-1), m2 = 0)
#[kani::proof]
#[kani::unwind(8)]
#[kani::stub(f64::tan, tan64_model)]
#[kani::stub(f64::powf, powf64_model)]
fn c14_2b_eq_bell_coefficients() {
    let g = tan64_model(core::f64::consts::PI * 0.25);
    kani::assume(g == 1.0);
    let a = powf64_model(10.0, 12.0f32 as f64 / 40.0);
    kani::assume(a == 2.0);
    let mut f = mk(EqFilterKind::Bell, 8192.0, 12.0, 0.25);
    let (s1, s2, x) = (grid_frame(), grid_frame(), grid_frame());
    f.ic1eq = s1;
    f.ic2eq = s2;
    let mut buf = [x];
    let info = empty_info();
    f.process(&mut buf, DT, &info);
    let v1 = s1.left * 0.25 + (x.left - s2.left) * 0.25;
    assert!(buf[0].left == x.left + v1 * 6.0, "C14.2b: bell = input + k (A^2 - 1) x band-pass");
    kani::cover!(v1 != 0.0);
    core::mem::forget(info); core::mem::forget(f);
}

// @ob id=C13.2c,C01.7b strength=axioms axioms=TAN,EXP10 tier=quick fn=effect/eq_filter.rs::<EqFilter as Effect>::process
// @req cleared state, silent input; any kind, frequency in [0, 1e6], gain in [-60, 24] dB, q in [-1, 100]
// @ens silence stays silent and the state stays cleared; no panic (frequency ratio and q are clamped)
#[kani::proof]
#[kani::unwind(8)]
#[kani::stub(f64::tan, tan64_model)]
#[kani::stub(f64::powf, powf64_model)]
fn c13_2c_eq_silence() {
    let mut f = mk(any_kind(), any_f64_in(0.0, 1.0e6), any_f32_in(-60.0, 24.0), any_f64_in(-1.0, 100.0));
    let mut buf = [Frame::ZERO];
    let info = empty_info();
    f.process(&mut buf, DT, &info);
    assert!(buf[0].left == 0.0 && buf[0].right == 0.0 && f.ic1eq.left == 0.0 && f.ic2eq.left == 0.0 && f.ic1eq.right == 0.0 && f.ic2eq.right == 0.0, "C13.2c: silence in, silence out, state stays cleared");
    kani::cover!(true);
    core::mem::forget(info); core::mem::forget(f);
}
