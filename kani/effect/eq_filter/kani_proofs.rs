//! C13 / C14 — EQ filter: 0 dB gain is the identity; bell coefficients at one exact parameter point.
// @deps info,parameter
use super::*;
use crate::kani_support::*;
use crate::info::kani_proofs::empty_info;
use crate::Value;

const DT: f64 = 1.0 / 32768.0;

fn mk(kind: EqFilterKind, frequency: f64, gain: f32, q: f64) -> EqFilter {
    let (w, r) = command_writers_and_readers();
    core::mem::forget(w);
    let b = EqFilterBuilder { kind, frequency: Value::Fixed(frequency), gain: Value::Fixed(Decibels(gain)), q: Value::Fixed(q) };
    EqFilter::new(b, r)
}

fn any_kind() -> EqFilterKind { match kani::any::<u8>() % 3 { 0 => EqFilterKind::Bell, 1 => EqFilterKind::LowShelf, _ => EqFilterKind::HighShelf } }

// @ob id=C13.2a,C14.2a strength=bounded tier=quick bound="frequency = sample_rate/4 (g = tan(pi/4) instantiated as 1.0), q = 1/2 (k = 2), gain 0 dB (10^0 = 1 exactly by the EXP10 axioms); state and input on the dyadic grid k/8; all three kinds" axioms=TAN,EXP10 fn=effect/eq_filter.rs::{<EqFilter as Effect>::process,Coefficients::calculate}
// @req one frame, arbitrary grid state and input
// @ens a 0 dB bell / low shelf / high shelf is the identity on the signal (m0 = 1, m1 = m2 = 0) while the integrators advance by the SVF update (a1 = a2 = a3 = 1/4)
#[kani::proof]
#[kani::unwind(8)]
#[kani::stub(f64::tan, tan64_model)]
#[kani::stub(f64::powf, powf64_model)]
fn c13_2a_eq_zero_gain_identity() {
    let g = tan64_model(core::f64::consts::PI * 0.25);
    kani::assume(g == 1.0);
    let mut f = mk(any_kind(), 8192.0, 0.0, 0.5);
    let (s1, s2, x) = (grid_frame(), grid_frame(), grid_frame());
    f.ic1eq = s1;
    f.ic2eq = s2;
    let mut buf = [x];
    let info = empty_info();
    f.process(&mut buf, DT, &info);
    assert!(buf[0].left == x.left && buf[0].right == x.right, "C13.2a: an EQ band at 0 dB leaves the signal unchanged");
    let v3 = x.left - s2.left;
    let v1 = s1.left * 0.25 + v3 * 0.25;
    let v2 = s2.left + s1.left * 0.25 + v3 * 0.25;
    assert!(f.ic1eq.left == v1 * 2.0 - s1.left && f.ic2eq.left == v2 * 2.0 - s2.left, "C14.2a: integrator update of the SvfLinearTrapOptimised2 form");
    kani::cover!(x.left != 0.0);
    core::mem::forget(info); core::mem::forget(f);
}

// @ob id=C14.2b strength=bounded tier=quick bound="bell, frequency = sample_rate/4 (g = 1), linear gain A instantiated as 2.0 (10^(gain/40) for gain 12 dB within the EXP10 axioms), q = 1/4 (k = 1/(qA) = 2); grid state and input" axioms=TAN,EXP10 fn=effect/eq_filter.rs::{<EqFilter as Effect>::process,Coefficients::calculate}
// @req one frame, arbitrary grid state and input
// @ens bell output = x + k (A^2 - 1) v1 = x + 6 v1 with v1 = (ic1 + x - ic2)/4 (m0 = 1, m1 = k(A^2-1), m2 = 0)
#[kani::proof]
#[kani::unwind(8)]
#[kani::stub(f64::tan, tan64_model)]
#[kani::stub(f64::powf, powf64_model)]
fn c14_2b_eq_bell_coefficients() {
    let g = tan64_model(core::f64::consts::PI * 0.25);
    kani::assume(g == 1.0);
    let a = powf64_model(10.0, 12.0f32 as f64 / 40.0);
    kani::assume(a == 2.0);
    let mut f = mk(EqFilterKind::Bell, 8192.0, 12.0, 0.25);
    let (s1, s2, x) = (grid_frame(), grid_frame(), grid_frame());
    f.ic1eq = s1;
    f.ic2eq = s2;
    let mut buf = [x];
    let info = empty_info();
    f.process(&mut buf, DT, &info);
    let v1 = s1.left * 0.25 + (x.left - s2.left) * 0.25;
    assert!(buf[0].left == x.left + v1 * 6.0, "C14.2b: bell = input + k (A^2 - 1) x band-pass");
    kani::cover!(v1 != 0.0);
    core::mem::forget(info); core::mem::forget(f);
}

// @ob id=C13.2c,C01.7b strength=axioms axioms=TAN,EXP10 tier=quick fn=effect/eq_filter.rs::<EqFilter as Effect>::process
// @req cleared state, silent input; any kind, frequency in [0, 1e6], gain in [-60, 24] dB, q in [-1, 100]
// @ens silence stays silent and the state stays cleared; no panic (frequency ratio and q are clamped)
#[kani::proof]
#[kani::unwind(8)]
#[kani::stub(f64::tan, tan64_model)]
#[kani::stub(f64::powf, powf64_model)]
fn c13_2c_eq_silence() {
    let mut f = mk(any_kind(), any_f64_in(0.0, 1.0e6), any_f32_in(-60.0, 24.0), any_f64_in(-1.0, 100.0));
    let mut buf = [Frame::ZERO];
    let info = empty_info();
    f.process(&mut buf, DT, &info);
    assert!(buf[0].left == 0.0 && buf[0].right == 0.0 && f.ic1eq.left == 0.0 && f.ic2eq.left == 0.0 && f.ic1eq.right == 0.0 && f.ic2eq.right == 0.0, "C13.2c: silence in, silence out, state stays cleared");
    kani::cover!(true);
    core::mem::forget(info); core::mem::forget(f);
}

// @ob id=C14.2c strength=bounded tier=quick timeout=1500 bound="low and high shelf, frequency = sample_rate/4 (tan instantiated as 1.0), linear gain A instantiated as 4.0 (10^(24/40) within the EXP10 axioms; sqrt A = 2), q = 2/3 (k = 3/2); grid state and input" axioms=TAN,EXP10 fn=effect/eq_filter.rs::{<EqFilter as Effect>::process,Coefficients::calculate}
// @req one frame, arbitrary grid state and input
// @ens SvfLinearTrapOptimised2 shelves: low shelf g = tan/sqrt(A) = 1/2, (a1,a2,a3) = (1/2,1/4,1/8), output = x + k(A-1) v1 + (A^2-1) v2 = x + 4.5 v1 + 15 v2; high shelf g = tan*sqrt(A) = 2, (a1,a2,a3) = (1/8,1/4,1/2), output = A^2 x + k(1-A)A v1 + (1-A^2) v2 = 16 x - 18 v1 - 15 v2
#[kani::proof]
#[kani::unwind(8)]
#[kani::stub(f64::tan, tan64_model)]
#[kani::stub(f64::powf, powf64_model)]
fn c14_2c_eq_shelf_coefficients() {
    let g = tan64_model(core::f64::consts::PI * 0.25);
    kani::assume(g == 1.0);
    let a = powf64_model(10.0, 24.0f32 as f64 / 40.0);
    kani::assume(a == 4.0);
    let high: bool = kani::any();
    let mut f = mk(if high { EqFilterKind::HighShelf } else { EqFilterKind::LowShelf }, 8192.0, 24.0, 2.0 / 3.0);
    let (s1, s2, x) = (grid_sample(), grid_sample(), grid_sample());
    f.ic1eq = Frame::new(s1, 0.0);
    f.ic2eq = Frame::new(s2, 0.0);
    let mut buf = [Frame::new(x, 0.0)];
    let info = empty_info();
    f.process(&mut buf, DT, &info);
    let (a1, a2, a3) = if high { (0.125f32, 0.25f32, 0.5f32) } else { (0.5f32, 0.25f32, 0.125f32) };
    let v3 = x - s2;
    let v1 = s1 * a1 + v3 * a2;
    let v2 = s2 + s1 * a2 + v3 * a3;
    assert!(f.ic1eq.left == v1 * 2.0 - s1 && f.ic2eq.left == v2 * 2.0 - s2, "C14.2c: shelf integrator update with the cited g");
    let want = if high { x * 16.0 + v1 * -18.0 + v2 * -15.0 } else { x + v1 * 4.5 + v2 * 15.0 };
    assert!(buf[0].left == want, "C14.2c: shelf mix coefficients m0, m1, m2 of the cited design");
    kani::cover!(high && v1 != 0.0);
    kani::cover!(!high);
    core::mem::forget(info); core::mem::forget(f);
}
