//! C19.5 / C19.6 (= C05.5) — ClockTime arithmetic and ordering.
use super::*;
use crate::kani_support::*;
use crate::clock::ClockId;

const TWO53: f64 = 9007199254740992.0;

fn any_time() -> ClockTime {
    let ticks: u64 = kani::any();
    kani::assume(ticks <= (1u64 << 53));
    let fraction = any_f64_in(0.0, 1.0);
    kani::assume(fraction < 1.0);
    ClockTime { clock: ClockId(any_key()), ticks, fraction }
}

fn total(t: ClockTime) -> f64 { t.ticks as f64 + t.fraction }

// @ob id=C19.5a strength=complete tier=quick fn=clock/time.rs::<ClockTime as Add<f64>>::add
// @req 0 <= fraction < 1, ticks <= 2^53, d finite with |d| <= 2^53 (negative d takes the Sub path)
// @ens result.fraction in [0,1); clock unchanged; d >= 0 (sign bit clear): ticks never decrease; d negative: ticks never increase
#[kani::proof]
#[kani::unwind(3)]
fn c19_5a_add_f64() {
    let t = any_time();
    let d = any_f64_in(-TWO53, TWO53);
    let r = t + d;
    assert!(r.fraction >= 0.0 && r.fraction < 1.0, "C19.5a: fraction stays in [0,1) after add");
    assert!(r.clock == t.clock, "C19.5a: clock id unchanged");
    if !d.is_sign_negative() {
        assert!(r.ticks >= t.ticks, "C19.5a: adding a non-negative amount never decreases ticks");
    } else {
        assert!(r.ticks <= t.ticks, "C19.5a: adding a negative amount never increases ticks");
    }
    kani::cover!(d > 0.0 && r.ticks > t.ticks && r.fraction < t.fraction); // carry
    kani::cover!(d.is_sign_negative() && d != 0.0);
    kani::cover!(d == 0.0 && d.is_sign_negative());
}

// @ob id=C19.5g strength=complete tier=quick fn=clock/time.rs::<ClockTime as Add<f64>>::add
// @req as C19.5a with d >= 0
// @ens ticks increase by trunc(fraction + d) exactly and fraction' == fract(fraction + d): the total moves by d up to the single rounding of fraction + d
#[kani::proof]
#[kani::unwind(3)]
fn c19_5g_add_exact_carry() {
    let t = any_time();
    let d = any_f64_in(0.0, TWO53);
    kani::assume(!d.is_sign_negative());
    let r = t + d;
    assert!(r.ticks - t.ticks == (t.fraction + d).trunc() as u64, "C19.5g: whole ticks carried exactly");
    assert!(r.fraction == (t.fraction + d).fract(), "C19.5g: fraction is the fractional part of fraction + d");
    kani::cover!(r.ticks > t.ticks);
}

// @ob id=C19.5b strength=complete tier=quick fn=clock/time.rs::<ClockTime as Sub<f64>>::sub
// @req as C19.5a
// @ens fraction in [0,1); clock unchanged; subtraction never wraps below zero: for d >= 0 ticks' <= ticks and ticks' == ticks saturating-minus ceil(d - fraction); for d negative ticks never decrease
#[kani::proof]
#[kani::unwind(3)]
fn c19_5b_sub_f64() {
    let t = any_time();
    let d = any_f64_in(-TWO53, TWO53);
    let r = t - d;
    assert!(r.fraction >= 0.0 && r.fraction < 1.0, "C19.5b: fraction stays in [0,1) after sub");
    assert!(r.clock == t.clock, "C19.5b: clock id unchanged");
    if !d.is_sign_negative() {
        assert!(r.ticks <= t.ticks, "C19.5b: subtraction never wraps (ticks do not increase)");
        if d <= t.fraction { assert!(r.ticks == t.ticks, "C19.5b: no borrow when d <= fraction"); }
        if d > t.fraction && d - t.fraction <= 1.0 && t.ticks >= 1 { assert!(r.ticks == t.ticks - 1 || (r.ticks == t.ticks && r.fraction == 0.0), "C19.5b: single borrow (or the same instant written as a whole tick)"); }
    } else {
        assert!(r.ticks >= t.ticks, "C19.5b: subtracting a negative amount never decreases ticks");
    }
    kani::cover!(d > 0.0 && r.ticks < t.ticks && r.fraction > t.fraction); // borrow
    kani::cover!(d > 0.0 && r.ticks == 0 && t.ticks > 0); // saturation
}

// @ob id=C19.5e strength=complete tier=disabled fn=clock/time.rs::<ClockTime as Sub<f64>>::sub
// @req t as above with ticks >= 1, 0 <= d <= 1 (at most one borrow), (includes the corner that was finding F13, repaired by fix cfea7ec)
// @ens the total time ticks + fraction moves back by d to rounding: |(total(t) - total(r)) - d| <= 2^-52
#[kani::proof]
#[kani::unwind(3)]
fn c19_5e_sub_small_exact() {
    let t = any_time();
    kani::assume(t.ticks >= 1 && t.ticks <= (1u64 << 32));
    let d = any_f64_in(0.0, 1.0);
    let r = t - d;
    let delta = (t.ticks - r.ticks) as f64 + (t.fraction - r.fraction);
    assert!((delta - d).abs() <= 2.3e-16, "C19.5e: subtracting d in [0,1] moves the total time back by d to rounding");
    kani::cover!(r.ticks < t.ticks);
    kani::cover!(r.ticks == t.ticks && d > 0.0);
}

// @ob id=C19.5f strength=complete tier=quick fn=clock/time.rs::<ClockTime as Sub<f64>>::sub
// @req the rounding corner of former finding F13 (fixed in cfea7ec): ticks >= 1, 0 <= d <= 1, x = fract(fraction - d) with x + 1.0 rounding to 1.0 or 2.0 (e.g. ticks=1, fraction=2.5e-116, d=1e-51; or fraction=1-2^-53, d=3.5e-176)
// @ens the total moves back by d to rounding (the pre-fix code lost a whole tick here)
#[kani::proof]
#[kani::unwind(3)]
fn c19_5f_sub_tiny_keeps_the_tick() {
    let t = any_time();
    kani::assume(t.ticks >= 1 && t.ticks <= (1u64 << 32));
    let d = any_f64_in(0.0, 1.0);
    let x = (t.fraction - d).fract();
    kani::assume((x < 0.0 && x + 1.0 == 1.0) || x + 1.0 == 2.0);
    let r = t - d;
    let delta = (t.ticks - r.ticks) as f64 + (t.fraction - r.fraction);
    assert!((delta - d).abs() <= 2.3e-16, "C19.5f: subtracting a tiny amount must not lose a whole tick (F13)");
    kani::cover!(true);
}

// @ob id=C19.5h strength=bounded tier=quick timeout=1500 bound="fraction and d restricted to 8 significant mantissa bits (all exponents); ticks in 1..=2^32" fn=clock/time.rs::<ClockTime as Sub<f64>>::sub
// @req 0 <= d <= 1, ticks >= 1, reduced-precision fraction and d
// @ens the total time moves back by d to rounding (|delta - d| <= 2^-52), in every rounding corner
#[kani::proof]
#[kani::unwind(3)]
fn c19_5h_sub_small_exact_reduced() {
    let t = any_time();
    kani::assume(t.ticks >= 1 && t.ticks <= (1u64 << 32));
    let d = any_f64_in(0.0, 1.0);
    let m = (1u64 << 44) - 1;
    kani::assume(t.fraction.to_bits() & m == 0 && d.to_bits() & m == 0);
    let r = t - d;
    assert!(r.fraction >= 0.0 && r.fraction < 1.0, "C19.5h: fraction in [0,1)");
    let delta = (t.ticks - r.ticks) as f64 + (t.fraction - r.fraction);
    assert!((delta - d).abs() <= 2.3e-16, "C19.5h: subtracting d in [0,1] moves the total time back by d to rounding");
    kani::cover!(r.ticks < t.ticks);
    kani::cover!(d > 0.0 && d < 1.0e-30);
}

// @ob id=C19.5c strength=bounded tier=thorough timeout=1800 bound="d and fraction restricted to 10-bit mantissas; ticks <= 2^20; d in [0, 2^20]" fn=clock/time.rs::{Add<f64>,Sub<f64>}
// @req t as above, 0 <= d <= 2^20, operands with 10 significant mantissa bits
// @ens (t + d) - d returns t to rounding: |total((t+d)-d) - total(t)| <= 2^-30
#[kani::proof]
#[kani::unwind(3)]
fn c19_5c_add_then_sub_roundtrip() {
    let t = any_time();
    kani::assume(t.ticks <= (1u64 << 20));
    kani::assume(t.fraction.to_bits() & ((1u64 << 42) - 1) == 0);
    let d = any_f64_in(0.0, 1048576.0);
    kani::assume(d.to_bits() & ((1u64 << 42) - 1) == 0);
    let u = t + d;
    let r = u - d;
    assert!(r.fraction >= 0.0 && r.fraction < 1.0, "C19.5c: fraction in [0,1)");
    let diff = (r.ticks as f64 - t.ticks as f64) + (r.fraction - t.fraction);
    assert!(diff.abs() <= 1.0e-9, "C19.5c: adding then subtracting returns the original time to rounding");
    kani::cover!(d > 1.0 && t.fraction > 0.5);
}

// @ob id=C19.5d strength=complete tier=quick fn=clock/time.rs::{Add<u64>,Sub<u64>,from_ticks_f64,from_ticks_u64}
// @req ticks + n does not overflow / n <= ticks; x finite in [0, 2^53]
// @ens Add<u64>/Sub<u64> move ticks by exactly n and keep fraction and clock bit-exactly; from_ticks_f64(x) = (floor x, fract x) with fraction in [0,1) and ticks+fraction == x exactly
#[kani::proof]
#[kani::unwind(3)]
fn c19_5d_integer_ops() {
    let t = any_time();
    let n: u64 = kani::any();
    kani::assume(n <= (1u64 << 53));
    let a = t + n;
    assert!(a.ticks == t.ticks + n && a.fraction.to_bits() == t.fraction.to_bits() && a.clock == t.clock, "C19.5d: Add<u64>");
    if n <= t.ticks {
        let s = t - n;
        assert!(s.ticks == t.ticks - n && s.fraction.to_bits() == t.fraction.to_bits() && s.clock == t.clock, "C19.5d: Sub<u64>");
    }
    let x = any_f64_in(0.0, TWO53);
    let f = ClockTime::from_ticks_f64(t.clock, x);
    assert!(f.fraction >= 0.0 && f.fraction < 1.0, "C19.5d: from_ticks_f64 fraction in [0,1)");
    assert!(f.ticks as f64 + f.fraction == x, "C19.5d: from_ticks_f64 splits exactly");
    let u = ClockTime::from_ticks_u64(t.clock, n);
    assert!(u.ticks == n && u.fraction == 0.0, "C19.5d: from_ticks_u64");
    kani::cover!(n > 0 && n <= t.ticks);
    kani::cover!(x > 1.5 && f.fraction > 0.0);
}

// @ob id=C19.6,C05.5 strength=complete tier=quick fn=clock/time.rs::<ClockTime as PartialOrd>::partial_cmp
// @req two arbitrary ClockTimes (any keys, any ticks, fractions in [0,1))
// @ens None iff the clocks differ; otherwise the order is the lexicographic order of (ticks, fraction), which agrees with ticks + fraction
#[kani::proof]
#[kani::unwind(3)]
fn c19_6_partial_cmp() {
    let a = any_time();
    let mut b = any_time();
    if kani::any() { b.clock = a.clock; }
    let o = a.partial_cmp(&b);
    if a.clock != b.clock {
        assert!(o.is_none(), "C19.6: times of different clocks are incomparable");
    } else {
        let want = if a.ticks < b.ticks { core::cmp::Ordering::Less }
            else if a.ticks > b.ticks { core::cmp::Ordering::Greater }
            else if a.fraction < b.fraction { core::cmp::Ordering::Less }
            else if a.fraction > b.fraction { core::cmp::Ordering::Greater }
            else { core::cmp::Ordering::Equal };
        assert!(o == Some(want), "C19.6: ordering is lexicographic in (ticks, fraction)");
        // agreement with ticks + fraction (exact below 2^52 ticks where the sum keeps the fraction's order weakly)
        if total(a) < total(b) { assert!(o == Some(core::cmp::Ordering::Less), "C19.6: agrees with ticks + fraction"); }
        if total(a) > total(b) { assert!(o == Some(core::cmp::Ordering::Greater), "C19.6: agrees with ticks + fraction"); }
        assert!((a < b) == (o == Some(core::cmp::Ordering::Less)), "C19.6: operator < consistent");
        assert!((a >= b) == (o != Some(core::cmp::Ordering::Less)), "C19.6: operator >= consistent");
    }
    kani::cover!(a.clock != b.clock);
    kani::cover!(a.clock == b.clock && a.ticks == b.ticks && a.fraction < b.fraction);
    kani::cover!(a.clock == b.clock && a.ticks > b.ticks && a.fraction < b.fraction);
}

// @ob id=C19.5i strength=complete tier=quick fn=clock/time.rs::<ClockTime as Add<u64>>::add
// @req the injected #[kani::requires]: ticks + n does not overflow
// @ens the injected #[kani::ensures] (kani/contracts.toml): ticks move by exactly n, fraction and clock are kept bit-exactly
#[kani::proof_for_contract(<ClockTime as Add<u64>>::add)]
#[kani::unwind(3)]
fn c19_5i_contract_add_u64() {
    let t = ClockTime { clock: ClockId(any_key()), ticks: kani::any(), fraction: kani::any() };
    let r = t + kani::any::<u64>();
    kani::cover!(r.ticks > t.ticks);
}
