//! C19.4 — the three clock-speed units convert consistently.
use super::*;
use crate::kani_support::*;

fn speed_of(kind: u8, v: f64) -> ClockSpeed {
    match kind % 3 {
        0 => ClockSpeed::SecondsPerTick(v),
        1 => ClockSpeed::TicksPerSecond(v),
        _ => ClockSpeed::TicksPerMinute(v),
    }
}

// @ob id=C19.4a strength=complete tier=quick fn=clock/clock_speed.rs::ClockSpeed::{as_seconds_per_tick,as_ticks_per_second,as_ticks_per_minute}
// @req speed value v in [1e-6, 1e9] (all f64 bit patterns in that range) in any of the three units
// @ens the accessor of the value's own unit returns it bit-exactly; all three conversions are positive and finite; faster clock (more ticks per second) <=> fewer seconds per tick: tps >= 1 <=> spt <= 1
#[kani::proof]
#[kani::unwind(4)]
fn c19_4a_units_own_exact_positive() {
    let v = any_f64_in(1.0e-6, 1.0e9);
    let kind: u8 = kani::any();
    let s = speed_of(kind, v);
    let spt = s.as_seconds_per_tick();
    let tps = s.as_ticks_per_second();
    let tpm = s.as_ticks_per_minute();
    assert!(spt > 0.0 && tps > 0.0 && tpm > 0.0 && spt.is_finite() && tps.is_finite() && tpm.is_finite(), "C19.4a: positive finite");
    assert!((tps >= 1.0) == (spt <= 1.0), "C19.4a: ticks per second and seconds per tick are reciprocal around 1");
    assert!((tpm >= 60.0) == (tps >= 1.0), "C19.4a: 60 ticks per minute is one tick per second");
    match s {
        ClockSpeed::SecondsPerTick(v) => assert!(spt.to_bits() == v.to_bits(), "C19.4a: own unit exact"),
        ClockSpeed::TicksPerSecond(v) => assert!(tps.to_bits() == v.to_bits(), "C19.4a: own unit exact"),
        ClockSpeed::TicksPerMinute(v) => assert!(tpm.to_bits() == v.to_bits(), "C19.4a: own unit exact"),
    }
    kani::cover!(matches!(s, ClockSpeed::SecondsPerTick(_)));
    kani::cover!(matches!(s, ClockSpeed::TicksPerSecond(_)));
    kani::cover!(matches!(s, ClockSpeed::TicksPerMinute(_)));
}

// @ob id=C19.4b strength=bounded tier=quick bound="v restricted to 6 significant mantissa bits (all exponents in [1e-6,1e9])" fn=clock/clock_speed.rs::ClockSpeed::{as_seconds_per_tick,as_ticks_per_second,as_ticks_per_minute}
// @req v in [1e-6, 1e9] with a 6-bit mantissa, any unit
// @ens the three views are mutually consistent: spt*tps within 4e-16 of 1, tpm/tps within 3e-14 of 60
#[kani::proof]
#[kani::unwind(4)]
fn c19_4b_units_consistent() {
    let v = any_f64_in(1.0e-6, 1.0e9);
    kani::assume(v.to_bits() & ((1u64 << 46) - 1) == 0);
    let kind: u8 = kani::any();
    let s = speed_of(kind, v);
    let spt = s.as_seconds_per_tick();
    let tps = s.as_ticks_per_second();
    let tpm = s.as_ticks_per_minute();
    let one = spt * tps;
    assert!(one >= 0.9999999999999996 && one <= 1.0000000000000004, "C19.4b: seconds per tick x ticks per second == 1");
    let sixty = tpm / tps;
    assert!(sixty >= 59.99999999999997 && sixty <= 60.00000000000003, "C19.4b: ticks per minute == 60 x ticks per second");
    kani::cover!(kind % 3 == 0);
    kani::cover!(kind % 3 == 2);
}
