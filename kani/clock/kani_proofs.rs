//! C05.1 / C05.2 — Clock::update, commands and the shared (handle-visible) time.
// @deps info,parameter
use super::*;
use crate::kani_support::*;
use crate::info::kani_proofs::empty_info;

fn pow2_dt() -> f64 {
    match kani::any::<u8>() % 4 { 0 => 1.0, 1 => 0.5, 2 => 0.25, _ => 0.0009765625 }
}

// @ob id=C05.1a strength=complete tier=quick fn=clock.rs::Clock::update
// @req a clock that is not ticking, in any state (NotStarted or Started{ticks, fraction in [0,1)}), any fixed speed, any dt in [0,10]
// @ens returns None and the state is unchanged (pausing freezes the clock)
#[kani::proof]
#[kani::unwind(12)]
fn c05_1a_paused_clock_frozen() {
    let tps = any_f64_in(0.0, 1.0e6);
    let mut c = Clock::without_handle(Value::Fixed(ClockSpeed::TicksPerSecond(tps)));
    c.ticking = false;
    let st = if kani::any() { State::NotStarted } else { State::Started { ticks: kani::any(), fractional_position: any_f64_in(0.0, 0.9999999) } };
    c.state = st;
    let info = empty_info();
    let r = c.update(any_f64_in(0.0, 10.0), &info);
    assert!(r.is_none(), "C05.1a: a paused clock reports no tick");
    assert!(c.state == st, "C05.1a: a paused clock does not advance");
    kani::cover!(st != State::NotStarted);
    core::mem::forget(info);
    core::mem::forget(c);
}

// @ob id=C05.1b strength=bounded tier=quick bound="dt in {1, 1/2, 1/4, 1/1024} s (products tps*dt exact); tps*dt <= 4 (at most 5 loop iterations, unwinding assertion on); ticks <= 2^40" fn=clock.rs::Clock::update
// @req ticking clock, NotStarted or Started{ticks <= 2^40, f in [0,1)}, fixed speed tps >= 0 with tps*dt <= 4
// @ens with T = f + tps*dt: state' = Started{ticks + floor(T), T - floor(T)} exactly, so the clock advanced by exactly speed x elapsed time and fraction' in [0,1); returns Some(ticks') iff a tick boundary was crossed or the clock just started (Some(0)); the loop terminates within 5 iterations
#[kani::proof]
#[kani::unwind(7)]
fn c05_1b_ticking_clock_advances_exactly() {
    let dt = pow2_dt();
    let tps = any_f64_in(0.0, 8192.0);
    kani::assume(tps * dt <= 4.0);
    let mut c = Clock::without_handle(Value::Fixed(ClockSpeed::TicksPerSecond(tps)));
    c.ticking = true;
    let fresh: bool = kani::any();
    let ticks0: u64 = kani::any();
    kani::assume(ticks0 <= (1u64 << 40));
    let f0 = any_f64_in(0.0, 0.9999999999);
    c.state = if fresh { State::NotStarted } else { State::Started { ticks: ticks0, fractional_position: f0 } };
    let (t_before, f_before) = if fresh { (0u64, 0.0f64) } else { (ticks0, f0) };
    let info = empty_info();
    let r = c.update(dt, &info);
    let total = f_before + tps * dt;
    let k = total.trunc() as u64;
    match c.state {
        State::Started { ticks, fractional_position } => {
            assert!(ticks == t_before + k, "C05.1b: whole ticks advance by floor(fraction + speed x dt)");
            assert!(fractional_position == total - total.trunc(), "C05.1b: the fraction keeps the remainder exactly");
            assert!(fractional_position >= 0.0 && fractional_position < 1.0, "C05.1b: fraction in [0,1)");
            if k > 0 { assert!(r == Some(ticks), "C05.1b: crossing a tick boundary reports the new tick"); }
            else if fresh { assert!(r == Some(0), "C05.1b: a clock that just started reports tick 0"); }
            else { assert!(r.is_none(), "C05.1b: no boundary crossed => no tick reported"); }
        }
        State::NotStarted => assert!(false, "C05.1b: a ticking clock is started after an update"),
    }
    kani::cover!(k >= 2);
    kani::cover!(k == 0 && !fresh);
    kani::cover!(fresh);
    core::mem::forget(info);
    core::mem::forget(c);
}

// @ob id=C05.2a,C07.2a strength=bounded tier=quick bound="single thread; one callback after each command burst" fn=clock.rs::Clock::{on_start_processing,set_ticking,reset,update_shared}
// @req a clock in any state; the handle issues start / pause / stop (or nothing) before the callback
// @ens start -> ticking; pause -> not ticking, state kept; stop -> not ticking AND state NotStarted (reset to zero); nothing -> unchanged; afterwards the shared (handle-visible) ticking flag and time equal the clock's own state exactly; a second callback without new commands changes nothing
#[kani::proof]
#[kani::unwind(12)]
fn c05_2a_commands_and_shared_time() {
    let id = ClockId(any_small_key(2));
    let (mut c, mut h) = Clock::new(Value::Fixed(ClockSpeed::TicksPerSecond(1.0)), id);
    let ticking0: bool = kani::any();
    c.ticking = ticking0;
    let st = if kani::any() { State::NotStarted } else { State::Started { ticks: kani::any(), fractional_position: any_f64_in(0.0, 0.9999999) } };
    c.state = st;
    let cmd = kani::any::<u8>() % 4;
    match cmd { 0 => h.start(), 1 => h.pause(), 2 => h.stop(), _ => {} }
    c.on_start_processing();
    match cmd {
        0 => assert!(c.ticking && c.state == st, "C05.2a: start"),
        1 => assert!(!c.ticking && c.state == st, "C05.2a: pause freezes, keeps the time"),
        2 => assert!(!c.ticking && c.state == State::NotStarted, "C05.2a: stop resets the clock to zero"),
        _ => assert!(c.ticking == ticking0 && c.state == st, "C05.2a: no command, no change"),
    }
    let (wt, wf) = match c.state { State::NotStarted => (0u64, 0.0f64), State::Started { ticks, fractional_position } => (ticks, fractional_position) };
    let t = h.time();
    assert!(t.ticks == wt && t.fraction.to_bits() == wf.to_bits() && t.clock == id, "C05.2a: the handle reads exactly the clock's time");
    if cmd != 3 { assert!(h.ticking() == c.ticking, "C05.2a: the handle reads the ticking flag"); }
    // a second callback with nothing new applies nothing twice
    let (tk, s2) = (c.ticking, c.state);
    c.on_start_processing();
    assert!(c.ticking == tk && c.state == s2, "C05.2a: commands are applied exactly once");
    kani::cover!(cmd == 2 && st != State::NotStarted);
    kani::cover!(cmd == 0 && !ticking0);
    core::mem::forget(c);
    core::mem::forget(h);
}

// @ob id=C07.2f,C05.2c strength=bounded tier=quick bound="single thread; every subset of {start, pause, stop} issued in one gap; any clock state" fn=clock.rs::Clock::on_start_processing
// @req any clock state (not started / started at any time, ticking or not); any subset of the handle's commands issued before one callback
// @ens the callback drains every command reader of the clock (nothing stays pending, so nothing can be applied late), and a
// @ens later callback with nothing new leaves a clock that has meanwhile moved on untouched (no command is applied late or twice)
#[kani::proof]
#[kani::unwind(4)]
fn c07_2f_clock_commands_are_drained_and_never_applied_late() {
    let id = ClockId(any_small_key(2));
    let (mut c, mut h) = Clock::new(Value::Fixed(ClockSpeed::TicksPerSecond(1.0)), id);
    c.ticking = kani::any();
    c.state = if kani::any() { State::NotStarted } else { State::Started { ticks: kani::any(), fractional_position: any_f64_in(0.0, 0.9999999) } };
    let (do_start, do_pause, do_stop): (bool, bool, bool) = (kani::any(), kani::any(), kani::any());
    if do_start { h.start(); }
    if do_pause { h.pause(); }
    if do_stop { h.stop(); }
    c.on_start_processing();
    if do_stop { assert!(c.state == State::NotStarted, "C07.2f: a stop issued before the callback has taken effect in it"); }
    // nothing stays pending after the callback, whatever the clock's state was
    assert!(c.command_readers.set_ticking.read().is_none(), "C07.2f: set_ticking reader drained by the callback");
    assert!(c.command_readers.reset.read().is_none(), "C07.2f: reset reader drained by the callback");
    assert!(c.command_readers.set_speed.read().is_none(), "C07.2f: set_speed reader drained by the callback");
    // the clock moves on (restarted and running), nothing new is issued: the next callback must not touch it
    c.ticking = true;
    c.state = State::Started { ticks: 7, fractional_position: 0.25 };
    c.on_start_processing();
    assert!(c.ticking && c.state == State::Started { ticks: 7, fractional_position: 0.25 }, "C07.2f: no command is applied late or twice");
    kani::cover!(do_stop && do_start);
    kani::cover!(!do_stop && !do_start && !do_pause);
    core::mem::forget(c);
    core::mem::forget(h);
}

// @ob id=C05.1c,C06.8a strength=complete tier=quick fn=clock.rs::Clock::update
// @req a clock in any ticking state (ticking or paused, started or not); Parameter::update replaced by its recording contract stub (C06.2)
// @ens the clock's speed parameter is advanced exactly once per update with the same dt, whether or not the clock is ticking (a speed tween issued while the clock is paused or not yet started progresses in audio time and is due when the clock starts)
#[kani::proof]
#[kani::unwind(7)]
#[kani::stub(Parameter::update, crate::parameter::kani_proofs::param_update_rec)]
fn c05_1c_speed_parameter_always_advances() {
    use crate::parameter::kani_proofs::{PU_N, PU_DT};
    let mut c = Clock::without_handle(Value::Fixed(ClockSpeed::TicksPerSecond(1.0)));
    c.ticking = kani::any();
    c.state = if kani::any() { State::NotStarted } else { State::Started { ticks: 3, fractional_position: 0.5 } };
    let dt = pow2_dt();
    let info = empty_info();
    let _ = c.update(dt, &info);
    unsafe { assert!(PU_N == 1 && PU_DT[0] == dt, "C05.1c: the speed parameter advances once per update, ticking or not"); }
    kani::cover!(!c.ticking);
    kani::cover!(c.ticking);
    core::mem::forget(info);
    core::mem::forget(c);
}

// @ob id=C05.2b strength=bounded tier=quick bound="single thread" fn=clock/handle.rs::ClockHandle::{time,stop,ticking}
// @req a started clock whose time has been published; the handle calls stop()
// @ens before stop the handle reads exactly the published time; immediately after stop() (before any callback) it reads time zero, never the stale time
#[kani::proof]
#[kani::unwind(12)]
fn c05_2b_handle_time_after_stop() {
    let id = ClockId(any_small_key(2));
    let (mut c, mut h) = Clock::new(Value::Fixed(ClockSpeed::TicksPerSecond(1.0)), id);
    let ticks: u64 = kani::any();
    let fr = any_f64_in(0.0, 0.9999999);
    c.state = State::Started { ticks, fractional_position: fr };
    c.on_start_processing();
    let t = h.time();
    assert!(t.ticks == ticks && t.fraction.to_bits() == fr.to_bits() && t.clock == id, "C05.2b: the handle reads the clock's published time");
    h.stop();
    let z = h.time();
    assert!(z.ticks == 0 && z.fraction == 0.0, "C05.2b: a stopped clock reads zero at once");
    c.on_start_processing();
    assert!(c.state == State::NotStarted && !c.ticking && h.time().ticks == 0, "C05.2b: and is reset at the next callback");
    kani::cover!(ticks > 0);
    core::mem::forget(c); core::mem::forget(h);
}
