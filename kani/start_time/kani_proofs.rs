//! C05.4 — StartTime::update.
// @deps info
use super::*;
use crate::kani_support::*;
use crate::info::kani_proofs::{empty_info, mock_info};
use crate::clock::ClockId;

// @ob id=C05.4a strength=complete tier=quick fn=start_time.rs::StartTime::update
// @req Immediate, or Delayed(d) with d = whole seconds <= 1000 (+0, 1/4 or 1/2 s); dt in {0, 1/48000, 0.25, 1, 3.5}
// @ens Immediate stays Immediate; Delayed(d) becomes Delayed(d (-) dt), and Immediate exactly when that is zero; never reports "will never start"
#[kani::proof]
#[kani::unwind(4)]
fn c05_4a_immediate_and_delayed() {
    let info = empty_info();
    let mut s = StartTime::Immediate;
    assert!(!s.update(1.0, &info) && s == StartTime::Immediate, "C05.4a: Immediate stays");
    let secs: u64 = kani::any();
    kani::assume(secs <= 1000);
    let d = Duration::new(secs, match kani::any::<u8>() % 3 { 0 => 0, 1 => 250_000_000, _ => 500_000_000 });
    let dt = match kani::any::<u8>() % 5 { 0 => 0.0, 1 => 1.0 / 48000.0, 2 => 0.25, 3 => 1.0, _ => 3.5 };
    let mut s = StartTime::Delayed(d);
    let never = s.update(dt, &info);
    let left = d.saturating_sub(Duration::from_secs_f64(dt));
    assert!(!never, "C05.4a: a delay always elapses");
    if left.is_zero() { assert!(s == StartTime::Immediate, "C05.4a: delay elapsed => Immediate"); }
    else { assert!(s == StartTime::Delayed(left), "C05.4a: delay counts down by dt"); }
    kani::cover!(left.is_zero() && !d.is_zero());
    kani::cover!(!left.is_zero() && dt > 0.0);
    core::mem::forget(info);
}

// @ob id=C05.4d strength=complete tier=quick fn=start_time.rs::StartTime::update
// @req ClockTime start; the clock missing, or present with arbitrary (ticking, ticks, fraction)
// @ens missing clock => returns true (will never start) and the start time is kept; ticking and at/after the target => Immediate; otherwise unchanged (not early, not while paused)
#[kani::proof]
#[kani::unwind(4)]
fn c05_4d_clock_time() {
    let have: bool = kani::any();
    let ticking: bool = kani::any();
    let ticks: u64 = kani::any();
    let fraction = any_f64_in(0.0, 0.999);
    let (info, cid, _) = mock_info(if have { Some((ticking, ticks, fraction)) } else { None }, None);
    let clock = match cid { Some(id) => id, None => ClockId(any_small_key(2)) };
    let tt: u64 = kani::any();
    let tf = any_f64_in(0.0, 0.999);
    let t = ClockTime { clock, ticks: tt, fraction: tf };
    let mut s = StartTime::ClockTime(t);
    let never = s.update(any_f64_in(0.0, 10.0), &info);
    let due = ticking && (ticks > tt || (ticks == tt && fraction >= tf));
    if !have { assert!(never && s == StartTime::ClockTime(t), "C05.4d: the clock no longer exists => cancelled"); }
    else if due { assert!(!never && s == StartTime::Immediate, "C05.4d: the clock reached the time => start now"); }
    else { assert!(!never && s == StartTime::ClockTime(t), "C05.4d: not yet"); }
    kani::cover!(!have);
    kani::cover!(have && due);
    kani::cover!(have && !ticking);
    core::mem::forget(info);
}
