//! C01.2 / C04.4 — Transport::{new, set_loop_region} establish the invariant the Verus proofs of the wrap loops assume.
use super::*;
use crate::kani_support::*;
use crate::sound::PlaybackPosition;

fn any_position() -> PlaybackPosition {
    if kani::any() { PlaybackPosition::Samples(kani::any()) } else { PlaybackPosition::Seconds(any_finite64()) }
}

fn any_region() -> Option<Region> {
    if kani::any() { return None; }
    Some(Region { start: any_position(), end: if kani::any() { EndPosition::EndOfAudio } else { EndPosition::Custom(any_position()) } })
}

fn wf_loop(t: &Transport) -> bool {
    match t.loop_region { Some((s, e)) => s < e, None => true }
}

// @ob id=C01.2a,C04.4a strength=complete tier=quick fn=sound/transport.rs::Transport::new
// @req any start position, any loop region (None, or any start/end in samples or finite seconds, including empty, inverted and out-of-range ones), any sample rate, any length; EXCLUDING reverse playback with start_position >= num_frames (finding F2)
// @ens never panics; the stored loop region is non-empty (loop_start < loop_end) or absent, which is what makes the wrap loops terminate; position = start (forward) or num_frames-1-start (reverse); playing
#[kani::proof]
#[kani::unwind(4)]
fn c01_2a_new_establishes_wf_loop() {
    let start: usize = kani::any();
    let n: usize = kani::any();
    let reverse: bool = kani::any();
    let sr: u32 = kani::any();
    kani::assume(!(reverse && start >= n));
    let t = Transport::new(start, any_region(), reverse, sr, n);
    assert!(wf_loop(&t), "C01.2a: a stored loop region is never empty or inverted (else the wrap loop never terminates)");
    assert!(t.playing, "C04.4a: a new transport is playing");
    assert!(t.position == if reverse { n - 1 - start } else { start }, "C04.4a: start position (mirrored when reversed)");
    kani::cover!(t.loop_region.is_some());
    kani::cover!(t.loop_region.is_none() && reverse);
}

// @ob id=C01.2b strength=complete tier=quick fn=sound/transport.rs::Transport::set_loop_region
// @req any transport state, any loop region as above
// @ens never panics; afterwards the loop region is non-empty or absent; position and playing flag untouched; a valid region (start < end) is stored as given
#[kani::proof]
#[kani::unwind(4)]
fn c01_2b_set_loop_region_establishes_wf_loop() {
    let mut t = Transport { position: kani::any(), loop_region: None, playing: kani::any() };
    let (p0, pl0) = (t.position, t.playing);
    let n: usize = kani::any();
    let sr: u32 = kani::any();
    let region = any_region();
    t.set_loop_region(region, sr, n);
    assert!(wf_loop(&t), "C01.2b: a stored loop region is never empty or inverted");
    assert!(t.position == p0 && t.playing == pl0, "C01.2b: changing the loop region does not move the transport");
    if let Some(Region { start: PlaybackPosition::Samples(s), end: EndPosition::Custom(PlaybackPosition::Samples(e)) }) = region {
        if s < e { assert!(t.loop_region == Some((s, e)), "C01.2b: a valid region is stored as given"); }
    }
    if region.is_none() { assert!(t.loop_region.is_none(), "C01.2b: None clears the loop"); }
    kani::cover!(t.loop_region.is_some());
    kani::cover!(region.is_some() && t.loop_region.is_none());
}

// @ob id=C04.4b strength=complete tier=quick finding=F2 fn=sound/transport.rs::Transport::new
// @req witness for finding F2: reverse playback with start_position >= num_frames (includes every start position on an empty sound)
// @ens (expected to FAIL while F2 is present) Transport::new does not panic
#[kani::proof]
#[kani::unwind(4)]
fn c04_4b_witness_f2_reverse_start_out_of_range() {
    let start: usize = kani::any();
    let n: usize = kani::any();
    kani::assume(start >= n);
    let t = Transport::new(start, None, true, 48000, n);
    kani::cover!(t.playing);
}

// ----------------------------------------------------------------------------------------------------------------
// Kani twins of the Verus contracts on the wrap loops: bounded (<= 4 wrap iterations), but they yield concrete,
// replayable counterexamples when the unbounded Verus obligation of the same function fails.
// ----------------------------------------------------------------------------------------------------------------
fn any_wf_transport() -> Transport {
    let playing: bool = kani::any();
    let position: usize = kani::any();
    kani::assume(position < usize::MAX);
    let region = if kani::any() {
        let s: usize = kani::any();
        let e: usize = kani::any();
        kani::assume(s < e);
        Some((s, e))
    } else { None };
    Transport { position, loop_region: region, playing }
}

// @ob id=C04.1w,C01.1w strength=bounded tier=quick bound="any well-formed transport with at most 4 wrap iterations (position + 1 < loop_end + 4 x loop length); unwinding assertion on" fn=sound/transport.rs::Transport::increment_position
// @req loop_start < loop_end when a loop is set; position < usize::MAX
// @ens not playing => unchanged; playing => position' = position + 1 reduced by whole loop lengths until below loop_end (inside the loop: e-1 is followed by loop_start, never loop_end); playing' == (position' < num_frames); loop region untouched
#[kani::proof]
#[kani::unwind(6)]
fn c04_1w_increment_position() {
    let mut t = any_wf_transport();
    let n: usize = kani::any();
    let (p0, r0, pl0) = (t.position, t.loop_region, t.playing);
    if let Some((s, e)) = r0 { kani::assume(p0 + 1 < e || (p0 + 1 - e) / (e - s) < 4); }
    t.increment_position(n);
    assert!(t.loop_region == r0, "C01.1w: the loop region is untouched");
    if !pl0 { assert!(t.position == p0 && !t.playing, "C04.1w: a stopped transport does not move"); return; }
    match r0 {
        None => assert!(t.position == p0 + 1, "C04.1w: advances by one frame"),
        Some((s, e)) => {
            assert!(t.position < e, "C04.1w: the position is wrapped below the loop end");
            assert!(t.position <= p0 + 1 && (p0 + 1 - t.position) % (e - s) == 0, "C04.1w: by whole loop lengths");
            if p0 + 1 < e { assert!(t.position == p0 + 1, "C04.1w: no wrap before the loop end"); }
            if p0 >= s && p0 < e { assert!(t.position == if p0 + 1 == e { s } else { p0 + 1 } && t.position >= s, "C04.1w: wraps from the loop end straight to the loop start"); }
        }
    }
    assert!(t.playing == (t.position < n), "C04.1w: playback ends exactly when the position reaches the length");
    kani::cover!(matches!(r0, Some((s, e)) if p0 + 1 == e && s > 0));
    kani::cover!(r0.is_none() && !t.playing);
}

// @ob id=C04.2w,C01.1x strength=bounded tier=quick bound="any well-formed transport with at most 4 wrap iterations; unwinding assertion on" fn=sound/transport.rs::Transport::decrement_position
// @req loop_start < loop_end when a loop is set
// @ens not playing => unchanged; with a loop: a position at or before loop_start is first raised by whole loop lengths above loop_start, then decremented (at loop_start the predecessor is loop_end - 1), and playback never stops; without a loop: position 0 stops playback, otherwise position - 1
#[kani::proof]
#[kani::unwind(7)]
fn c04_2w_decrement_position() {
    let mut t = any_wf_transport();
    let (p0, r0, pl0) = (t.position, t.loop_region, t.playing);
    if let Some((s, e)) = r0 { kani::assume(p0 > s || (s - p0) / (e - s) < 4); }
    t.decrement_position();
    assert!(t.loop_region == r0, "C01.1x: the loop region is untouched");
    if !pl0 { assert!(t.position == p0 && !t.playing, "C04.2w: a stopped transport does not move"); return; }
    match r0 {
        None => {
            if p0 == 0 { assert!(!t.playing && t.position == 0, "C04.2w: playing backwards past the start stops"); }
            else { assert!(t.playing && t.position == p0 - 1, "C04.2w: steps back by one frame"); }
        }
        Some((s, e)) => {
            assert!(t.playing, "C04.2w: a looping transport does not stop when playing backwards");
            if p0 > s { assert!(t.position == p0 - 1, "C04.2w: inside or after the loop: one step back"); }
            else { assert!(t.position >= s && t.position < e && (t.position + 1 - p0) % (e - s) == 0, "C04.2w: wrapped up by whole loop lengths into the loop"); }
            if p0 == s { assert!(t.position == e - 1, "C04.2w: from the loop start straight to the loop end - 1"); }
        }
    }
    kani::cover!(matches!(r0, Some((s, _)) if p0 == s));
    kani::cover!(r0.is_none() && p0 == 0);
}

// @ob id=C04.3w,C01.1y strength=bounded tier=quick bound="any well-formed transport, target within 2 loop lengths of the loop; unwinding assertion on" timeout=1800 fn=sound/transport.rs::Transport::seek_to
// @req loop_start < loop_end when a loop is set
// @ens a target inside the loop (or any target without a loop) is hit exactly; a forward seek past the loop end is wrapped down below it, a backward (or equal) seek before the loop start is wrapped up to it, both by whole loop lengths; playing' == playing && position' < num_frames (a seek never restarts a stopped transport); loop region untouched
#[kani::proof]
#[kani::unwind(5)]
fn c04_3w_seek_to() {
    let mut t = any_wf_transport();
    let n: usize = kani::any();
    let target: usize = kani::any();
    let (p0, r0, pl0) = (t.position, t.loop_region, t.playing);
    if let Some((s, e)) = r0 {
        kani::assume(target < e || (target - e) / (e - s) < 2);
        kani::assume(target >= s || (s - target) / (e - s) < 2);
    }
    t.seek_to(target, n);
    assert!(t.loop_region == r0, "C01.1y: the loop region is untouched");
    match r0 {
        None => assert!(t.position == target, "C04.3w: without a loop the seek lands on the target"),
        Some((s, e)) => {
            if target >= s && target < e { assert!(t.position == target, "C04.3w: a target inside the loop is hit exactly"); }
            if target > p0 {
                assert!(t.position <= target && (target - t.position) % (e - s) == 0, "C04.3w: forward seek wraps down by whole loop lengths");
                assert!(t.position < e, "C04.3w: and lands below the loop end");
                if target < e { assert!(t.position == target, "C04.3w: no wrap needed"); }
            } else {
                assert!(t.position >= target && (t.position - target) % (e - s) == 0, "C04.3w: backward seek wraps up by whole loop lengths");
                assert!(t.position >= s, "C04.3w: and lands at or after the loop start");
                if target >= s { assert!(t.position == target, "C04.3w: no wrap needed"); }
            }
        }
    }
    assert!(t.playing == (pl0 && t.position < n), "C04.3w: seeking beyond the end stops playback; a seek never restarts it");
    kani::cover!(matches!(r0, Some((_, e)) if target > p0 && target >= e));
    kani::cover!(matches!(r0, Some((s, _)) if target <= p0 && target < s));
}

// @ob id=C04.1c,C01.1c strength=bounded tier=quick bound="Kani function contract (attributes injected on the real function, see kani/contracts.toml) proved for at most 4 wrap iterations" fn=sound/transport.rs::Transport::increment_position
// @req the injected #[kani::requires]: loop_start < loop_end, position < usize::MAX, at most 4 wraps
// @ens the injected #[kani::ensures]: loop region untouched; a stopped transport does not move; playing' == (position' < num_frames); the position ends below the loop end (or advanced by exactly one without a loop)
#[kani::proof_for_contract(Transport::increment_position)]
#[kani::unwind(6)]
fn c04_1c_contract_increment_position() {
    let mut t = Transport { position: kani::any(), loop_region: if kani::any() { Some((kani::any(), kani::any())) } else { None }, playing: kani::any() };
    t.increment_position(kani::any());
    kani::cover!(t.playing);
}
