//! C01.2 / C04.4 — Transport::{new, set_loop_region} establish the invariant the Verus proofs of the wrap loops assume.
use super::*;
use crate::kani_support::*;
use crate::sound::PlaybackPosition;

fn any_position() -> PlaybackPosition {
    if kani::any() { PlaybackPosition::Samples(kani::any()) } else { PlaybackPosition::Seconds(any_finite64()) }
}

fn any_region() -> Option<Region> {
    if kani::any() { return None; }
    Some(Region { start: any_position(), end: if kani::any() { EndPosition::EndOfAudio } else { EndPosition::Custom(any_position()) } })
}

fn wf_loop(t: &Transport) -> bool {
    match t.loop_region { Some((s, e)) => s < e, None => true }
}

// @ob id=C01.2a,C04.4a strength=complete tier=quick fn=sound/transport.rs::Transport::new
// @req any start position, any loop region (None, or any start/end in samples or finite seconds, including empty, inverted and out-of-range ones), any sample rate, any length; EXCLUDING reverse playback with start_position >= num_frames (finding F2)
// @ens never panics; the stored loop region is non-empty (loop_start < loop_end) or absent, which is what makes the wrap loops terminate; position = start (forward) or num_frames-1-start (reverse); playing
#[kani::proof]
#[kani::unwind(4)]
fn c01_2a_new_establishes_wf_loop() {
    let start: usize = kani::any();
    let n: usize = kani::any();
    let reverse: bool = kani::any();
    let sr: u32 = kani::any();
    kani::assume(!(reverse && start >= n));
    let t = Transport::new(start, any_region(), reverse, sr, n);
    assert!(wf_loop(&t), "C01.2a: a stored loop region is never empty or inverted (else the wrap loop never terminates)");
    assert!(t.playing, "C04.4a: a new transport is playing");
    assert!(t.position == if reverse { n - 1 - start } else { start }, "C04.4a: start position (mirrored when reversed)");
    kani::cover!(t.loop_region.is_some());
    kani::cover!(t.loop_region.is_none() && reverse);
}

// @ob id=C01.2b strength=complete tier=quick fn=sound/transport.rs::Transport::set_loop_region
// @req any transport state, any loop region as above
// @ens never panics; afterwards the loop region is non-empty or absent; position and playing flag untouched; a valid region (start < end) is stored as given
#[kani::proof]
#[kani::unwind(4)]
fn c01_2b_set_loop_region_establishes_wf_loop() {
    let mut t = Transport { position: kani::any(), loop_region: None, playing: kani::any() };
    let (p0, pl0) = (t.position, t.playing);
    let n: usize = kani::any();
    let sr: u32 = kani::any();
    let region = any_region();
    t.set_loop_region(region, sr, n);
    assert!(wf_loop(&t), "C01.2b: a stored loop region is never empty or inverted");
    assert!(t.position == p0 && t.playing == pl0, "C01.2b: changing the loop region does not move the transport");
    if let Some(Region { start: PlaybackPosition::Samples(s), end: EndPosition::Custom(PlaybackPosition::Samples(e)) }) = region {
        if s < e { assert!(t.loop_region == Some((s, e)), "C01.2b: a valid region is stored as given"); }
    }
    if region.is_none() { assert!(t.loop_region.is_none(), "C01.2b: None clears the loop"); }
    kani::cover!(t.loop_region.is_some());
    kani::cover!(region.is_some() && t.loop_region.is_none());
}

// @ob id=C04.4b strength=complete tier=quick finding=F2 fn=sound/transport.rs::Transport::new
// @req witness for finding F2: reverse playback with start_position >= num_frames (includes every start position on an empty sound)
// @ens (expected to FAIL while F2 is present) Transport::new does not panic
#[kani::proof]
#[kani::unwind(4)]
fn c04_4b_witness_f2_reverse_start_out_of_range() {
    let start: usize = kani::any();
    let n: usize = kani::any();
    kani::assume(start >= n);
    let t = Transport::new(start, None, true, 48000, n);
    kani::cover!(t.playing);
}
