//! C03.3 — the handle-visible state mirror of streaming sounds.
use super::*;

fn any_state() -> PlaybackState {
    match kani::any::<u8>() % 7 { 0 => PlaybackState::Playing, 1 => PlaybackState::Pausing, 2 => PlaybackState::Paused, 3 => PlaybackState::WaitingToResume, 4 => PlaybackState::Resuming, 5 => PlaybackState::Stopping, _ => PlaybackState::Stopped }
}

// @ob id=C03.3b strength=complete tier=quick fn=sound/streaming/sound.rs::Shared::{new,set_state,state,position}
// @req every one of the seven playback states
// @ens a new streaming sound reports Playing at position 0, no error, not ended; state(set_state(s)) == s for all seven states and never panics
#[kani::proof]
#[kani::unwind(3)]
fn c03_3b_streaming_shared_state_roundtrip() {
    let sh = Shared::new();
    assert!(sh.state() == PlaybackState::Playing && sh.position() == 0.0 && !sh.reached_end() && !sh.encountered_error(), "C03.3b: initial handle view");
    let s = any_state();
    sh.set_state(s);
    assert!(sh.state() == s, "C03.3b: the handle reports exactly the state the audio thread stored");
    kani::cover!(s == PlaybackState::Stopped);
}
