//! C04.6 — the 4-frame history resampler.
use super::*;
use crate::kani_support::*;

fn any_frame() -> Frame { Frame::new(kani::any(), kani::any()) }
fn same(a: Frame, b: Frame) -> bool { a.left.to_bits() == b.left.to_bits() && a.right.to_bits() == b.right.to_bits() }

pub(crate) fn any_resampler() -> Resampler {
    let t: usize = kani::any();
    kani::assume(t <= 4);
    Resampler {
        frames: [RecentFrame { frame: any_frame(), frame_index: kani::any() }, RecentFrame { frame: any_frame(), frame_index: kani::any() },
                 RecentFrame { frame: any_frame(), frame_index: kani::any() }, RecentFrame { frame: any_frame(), frame_index: kani::any() }],
        time_until_empty: t,
    }
}

// @ob id=C04.6a strength=complete tier=quick fn=sound/static_sound/sound/resampler.rs::Resampler::{new,push_frame,current_frame_index,empty}
// @req any resampler state (4 arbitrary stamped frames, time_until_empty <= 4), any pushed frame (Some / None) and index
// @ens shift register: frames' = [f1, f2, f3, (pushed or ZERO, index)] bit-exactly; time_until_empty' = 4 on Some, max(0, t-1) on None; the heard index is slot 1; new(i) is four silent frames stamped i and empty
#[kani::proof]
#[kani::unwind(6)]
fn c04_6a_push_is_a_shift_register() {
    let mut r = any_resampler();
    let old = r.frames;
    let t0 = r.time_until_empty;
    let f = if kani::any() { Some(any_frame()) } else { None };
    let idx: usize = kani::any();
    r.push_frame(f, idx);
    let mut i = 0;
    while i < 3 {
        assert!(same(r.frames[i].frame, old[i + 1].frame) && r.frames[i].frame_index == old[i + 1].frame_index, "C04.6a: older frames shift down by one");
        i += 1;
    }
    assert!(r.frames[3].frame_index == idx, "C04.6a: the new slot is stamped with the pushed index");
    match f {
        Some(x) => assert!(same(r.frames[3].frame, x) && r.time_until_empty == 4, "C04.6a: pushing audio refills the window"),
        None => assert!(same(r.frames[3].frame, Frame::ZERO) && r.time_until_empty == t0.saturating_sub(1), "C04.6a: pushing nothing pads silence and counts down"),
    }
    assert!(r.current_frame_index() == old[2].frame_index, "C04.6a: the heard frame is slot 1");
    assert!(r.empty() == (r.time_until_empty == 0), "C04.6a: empty");
    let n = Resampler::new(idx);
    assert!(n.empty() && n.current_frame_index() == idx && same(n.frames[0].frame, Frame::ZERO) && same(n.frames[3].frame, Frame::ZERO), "C04.6a: a new resampler is silent and empty");
    kani::cover!(f.is_none() && t0 == 1);
    kani::cover!(f.is_some());
}

// @ob id=C04.6b,C03.6a strength=complete tier=quick fn=sound/static_sound/sound/resampler.rs::Resampler::push_frame
// @req any resampler state
// @ens four pushes of None from any state leave the resampler empty (the tail of a sound drains in exactly four frames), and fewer than four after a Some do not
#[kani::proof]
#[kani::unwind(6)]
fn c04_6b_drains_in_four() {
    let mut r = any_resampler();
    if kani::any() { r.push_frame(Some(any_frame()), 0); assert!(!r.empty()); }
    let t0 = r.time_until_empty;
    let mut i = 0;
    while i < 4 {
        assert!(r.empty() == (t0 <= i), "C04.6b: not empty before its time");
        r.push_frame(None, 0);
        i += 1;
    }
    assert!(r.empty(), "C04.6b: four silent pushes always drain the window");
    kani::cover!(t0 == 4);
}

// @ob id=C04.6c strength=complete tier=quick fn=sound/static_sound/sound/resampler.rs::Resampler::get
// @req any resampler whose four frames are finite (|x| <= 1e6); fraction 0
// @ens get(0.0) is the frame in slot 1, bit-exactly up to the sign of zero (no interpolation error at integer positions: the basis of bit-exact playback at rate 1)
#[kani::proof]
#[kani::unwind(6)]
fn c04_6c_get_at_zero_is_slot_one() {
    let mut r = any_resampler();
    let mut i = 0;
    while i < 4 {
        kani::assume(r.frames[i].frame.left.abs() <= 1.0e6 && r.frames[i].frame.right.abs() <= 1.0e6);
        i += 1;
    }
    let out = r.get(0.0);
    assert!(out.left == r.frames[1].frame.left && out.right == r.frames[1].frame.right, "C04.6c: fraction 0 reproduces the heard frame exactly");
    kani::cover!(r.frames[1].frame.left != 0.0);
}

pub(crate) static mut IF_N: usize = 0;
pub(crate) static mut IF_ARGS: [Frame; 4] = [Frame::ZERO; 4];
pub(crate) static mut IF_X: f32 = 0.0;
pub(crate) static mut IF_RET: Frame = Frame::ZERO;

/// Recording stand-in for `frame::interpolate_frame` (its own contract: C04.7a-c).
pub(crate) fn interpolate_frame_rec(previous: Frame, current: Frame, next_1: Frame, next_2: Frame, fraction: f32) -> Frame {
    let r = Frame::new(kani::any(), kani::any());
    unsafe { IF_N += 1; IF_ARGS = [previous, current, next_1, next_2]; IF_X = fraction; IF_RET = r; }
    r
}

// @ob id=C04.6d strength=complete tier=quick fn=sound/static_sound/sound/resampler.rs::Resampler::get
// @req any resampler state, any fraction; interpolate_frame replaced by its recording contract stub
// @ens get(x) is interpolate_frame(slot 0, slot 1, slot 2, slot 3, x): the four history frames in age order (previous, current, next, next-but-one) with the fraction passed through unchanged, and the result returned unchanged
#[kani::proof]
#[kani::unwind(6)]
#[kani::stub(crate::frame::interpolate_frame, interpolate_frame_rec)]
fn c04_6d_get_feeds_the_window_in_order() {
    let r = any_resampler();
    let x: f32 = kani::any();
    let out = r.get(x);
    unsafe {
        assert!(IF_N == 1, "C04.6d: one interpolation per output frame");
        let mut i = 0;
        while i < 4 { assert!(same(IF_ARGS[i], r.frames[i].frame), "C04.6d: the window is handed over oldest first"); i += 1; }
        assert!(IF_X.to_bits() == x.to_bits() && same(out, IF_RET), "C04.6d: fraction and result pass through unchanged");
    }
    kani::cover!(true);
}
