//! C04.8 / C03.4 / C04.10 — the real StaticSound object on small symbolic audio (bounded).
// @deps info,parameter,playback_state_manager
use super::*;
use crate::kani_support::*;
use crate::info::kani_proofs::empty_info;
use crate::sound::static_sound::{StaticSoundData, StaticSoundSettings, StaticSoundHandle};
use crate::sound::{PlaybackPosition, Region, EndPosition};
use std::time::Duration;

fn sample() -> f32 { any_f32_in(-1.0, 1.0) }
fn any_frames3() -> [Frame; 3] {
    [Frame::new(sample(), sample()), Frame::new(sample(), sample()), Frame::new(sample(), sample())]
}
fn same(a: Frame, b: Frame) -> bool { a.left == b.left && a.right == b.right }

/// the real constructor path: StaticSoundData -> split() -> (StaticSound, handle); sample rate 1 so that dt = 1.0 is one frame
fn build(src: [Frame; 3], settings: StaticSoundSettings, slice: Option<(usize, usize)>) -> (StaticSound, StaticSoundHandle) {
    let data = StaticSoundData { sample_rate: 1, frames: Arc::new(src), settings, slice };
    data.split()
}

// @ob id=C04.8a,C03.4a strength=bounded tier=quick timeout=1800 bound="3 symbolic stereo frames (|x| <= 1), sound rate = device rate (sample_rate 1, dt 1), 5 one-frame callbacks" fn=sound/static_sound/sound.rs::StaticSound::{new,process,update_position,push_frame_to_resampler}
// @req default settings (rate 1, 0 dB, centre, no loop, forward, start 0)
// @ens the first output frame is source frame 0 (no added latency) and frames 0,1,2 are reproduced bit-exactly in order; then exact silence; the sound reports Stopped (finished) right after the drained tail and not before the last source frame was emitted; the handle sees Stopped
#[kani::proof]
#[kani::unwind(8)]
fn c04_8a_rate_one_is_bit_exact_then_stops() {
    let src = any_frames3();
    let (mut s, h) = build(src, StaticSoundSettings::new(), None);
    let info = empty_info();
    let mut i = 0;
    while i < 3 {
        assert!(!s.finished(), "C04.8a: not finished while source frames remain");
        let out = s.process_one(1.0, &info);
        assert!(same(out, src[i]), "C04.8a: rate-1 playback reproduces the source frames bit-exactly, with no latency");
        i += 1;
    }
    let tail = s.process_one(1.0, &info);
    assert!(same(tail, Frame::ZERO), "C04.8a: after the last frame the output is silence");
    assert!(s.finished() && h.state() == PlaybackState::Stopped, "C04.8a: the sound reports Stopped after its last frame");
    let after = s.process_one(1.0, &info);
    assert!(same(after, Frame::ZERO) && s.finished(), "C03.4a: a stopped sound emits exact silence and stays stopped");
    kani::cover!(src[0].left != src[1].left);
    core::mem::forget(info); core::mem::forget(s); core::mem::forget(h);
}

fn run_select(mode: u8) {
    let src = any_frames3();
    let mut st = StaticSoundSettings::new();
    let mut slice = None;
    match mode { 0 => st.reverse = true, 1 => st.start_position = PlaybackPosition::Samples(1), _ => slice = Some((1, 3)) }
    let (mut s, h) = build(src, st, slice);
    let info = empty_info();
    let want: [Frame; 4] = match mode { 0 => [src[2], src[1], src[0], Frame::ZERO], _ => [src[1], src[2], Frame::ZERO, Frame::ZERO] };
    let mut i = 0;
    while i < 4 {
        let out = s.process_one(1.0, &info);
        assert!(same(out, want[i]), "C04.8b: reverse / start position / slice select exactly the requested frames, bit-exactly");
        i += 1;
    }
    kani::cover!(src[0].left != src[2].left);
    core::mem::forget(info); core::mem::forget(s); core::mem::forget(h);
}

// @ob id=C04.8b strength=bounded tier=quick timeout=1800 bound="3 symbolic frames, sample_rate 1, dt 1, 4 callbacks" fn=sound/static_sound/sound.rs::StaticSound::{new,process,update_position,is_playing_backwards}
// @req reverse playback from the start (start position 0)
// @ens frames 2,1,0 bit-exactly then silence
#[kani::proof]
#[kani::unwind(8)]
fn c04_8b_reverse() { run_select(0) }

// @ob id=C04.8d strength=bounded tier=quick timeout=1800 bound="3 symbolic frames, sample_rate 1, dt 1, 4 callbacks" fn=sound/static_sound/sound.rs::StaticSound::{new,process,update_position}
// @req forward playback from start position 1 (in samples)
// @ens frames 1,2 bit-exactly then silence (begins at the requested start position)
#[kani::proof]
#[kani::unwind(8)]
fn c04_8d_start_position() { run_select(1) }

// @ob id=C04.8e,C01.3x strength=bounded tier=quick timeout=1800 bound="3 symbolic frames, sample_rate 1, dt 1, 4 callbacks" fn=sound/static_sound/sound.rs::StaticSound::{new,process,push_frame_to_resampler}
// @req slice (1,3)
// @ens frames 1,2 then silence: frame 0 is never emitted (nothing outside the slice is read)
#[kani::proof]
#[kani::unwind(8)]
fn c04_8e_slice() { run_select(2) }

fn run_loop(ls: usize, le: usize, idx: [usize; 6]) {
    let src = any_frames3();
    let mut st = StaticSoundSettings::new();
    st.loop_region = Some(Region { start: PlaybackPosition::Samples(ls), end: EndPosition::Custom(PlaybackPosition::Samples(le)) });
    let (mut s, h) = build(src, st, None);
    let info = empty_info();
    let mut i = 0;
    while i < 6 {
        let out = s.process_one(1.0, &info);
        assert!(same(out, src[idx[i]]), "C04.8c: looping wraps from the loop end straight to the loop start");
        assert!(!s.finished(), "C04.8c: a looping sound does not stop");
        i += 1;
    }
    kani::cover!(src[0].left != src[1].left);
    core::mem::forget(info); core::mem::forget(s); core::mem::forget(h);
}

// @ob id=C04.8c strength=bounded tier=quick timeout=1800 bound="3 symbolic frames, sample_rate 1, dt 1, 6 callbacks; loop region (0,2) in samples" fn=sound/static_sound/sound.rs::StaticSound::{new,process,update_position}
// @req forward playback with loop region [0,2)
// @ens output 0,1,0,1,0,1: wraps from the loop end straight to the loop start; never stops
#[kani::proof]
#[kani::unwind(9)]
fn c04_8c_loop_0_2() { run_loop(0, 2, [0, 1, 0, 1, 0, 1]) }

// @ob id=C04.8f strength=bounded tier=quick timeout=1800 bound="as C04.8c; loop region (1,3): loop end == length" fn=sound/static_sound/sound.rs::StaticSound::{new,process,update_position}
// @req forward playback with loop region [1,3) (loop end == sound length)
// @ens output 0,1,2,1,2,1
#[kani::proof]
#[kani::unwind(9)]
fn c04_8f_loop_1_3() { run_loop(1, 3, [0, 1, 2, 1, 2, 1]) }

fn run_frozen(mode: u8) {
    let src = any_frames3();
    let mut st = StaticSoundSettings::new();
    if mode == 0 { st.start_time = StartTime::Delayed(Duration::from_secs(10)); }
    let (mut s, h) = build(src, st, None);
    let info = empty_info();
    let zero = Tween { start_time: StartTime::Immediate, duration: Duration::ZERO, easing: crate::Easing::Linear };
    match mode {
        1 => { s.pause(zero); }
        2 => { s.pause(zero); let mut w = [Frame::ZERO; 1]; s.process(&mut w, 0.0, &info); s.resume(StartTime::Delayed(Duration::from_secs(10)), zero); }
        3 => { s.stop(zero); }
        _ => {}
    }
    // one zero-length update lets the zero-length fade complete (Pausing -> Paused, Stopping -> Stopped)
    let mut warm = [Frame::new(1.0, 1.0); 1];
    if mode != 0 { s.process(&mut warm, 0.0, &info); }
    let state = s.playback_state_manager.playback_state();
    if mode == 1 { assert!(state == PlaybackState::Paused, "C03.4b: zero-length pause completes at the next update"); }
    if mode == 2 { assert!(state == PlaybackState::WaitingToResume, "C03.4b: resume_at waits"); }
    if mode == 3 { assert!(state == PlaybackState::Stopped, "C03.4b: zero-length stop completes at the next update"); }
    let (p0, f0, r0) = (s.transport.position, s.fractional_position, s.resampler.current_frame_index());
    let mut out = [Frame::new(1.0, 1.0); 2];
    s.process(&mut out, 1.0, &info);
    assert!(same(out[0], Frame::ZERO) && same(out[1], Frame::ZERO), "C03.4b: a sound that is not advancing emits exact silence");
    assert!(s.transport.position == p0 && s.fractional_position == f0 && s.resampler.current_frame_index() == r0, "C03.4b: and its position does not advance");
    assert!(h.state() == s.playback_state_manager.playback_state(), "C03.4b: the handle reports the sound's state");
    kani::cover!(true);
    core::mem::forget(info); core::mem::forget(s); core::mem::forget(h);
}

// @ob id=C03.4b strength=bounded tier=quick timeout=1800 bound="3 symbolic frames; 2-frame output buffer" fn=sound/static_sound/sound.rs::<StaticSound as Sound>::process
// @req a sound whose start time is still pending (Delayed 10 s)
// @ens output exactly Frame::ZERO; transport position, fractional position and resampler window unchanged
#[kani::proof]
#[kani::unwind(8)]
fn c03_4b_pending_start_time() { run_frozen(0) }

// @ob id=C03.4c,C12.5a strength=bounded tier=quick timeout=1800 bound="3 symbolic frames; 2-frame output buffer; zero-length fade" fn=sound/static_sound/sound.rs::<StaticSound as Sound>::{process,on_start_processing}
// @req a sound paused through the real pause path (zero-length fade)
// @ens Paused after one update; then exact silence and a frozen position; the handle reports Paused
#[kani::proof]
#[kani::unwind(8)]
fn c03_4c_paused() { run_frozen(1) }

// @ob id=C03.4d strength=bounded tier=thorough timeout=3600 bound="as C03.4c" fn=sound/static_sound/sound.rs::<StaticSound as Sound>::process
// @req paused, then resume_at(Delayed 10 s)
// @ens WaitingToResume: exact silence, frozen position
#[kani::proof]
#[kani::unwind(8)]
fn c03_4d_waiting_to_resume() { run_frozen(2) }

// @ob id=C03.4f,C12.5b strength=bounded tier=quick timeout=800 bound="3 symbolic frames; one 2-frame process; the state machine placed in WaitingToResume (what pause + completed fade + resume_at produce: C03.1a/b, C03.2) with a 1 s delay, dt 1/48000" axioms=EXP10 fn=sound/static_sound/sound.rs::<StaticSound as Sound>::process
// @req a sound whose state machine is WaitingToResume (start time not reached, fade resting at -60 dB)
// @ens quick-tier twin of C03.4d: exact silence, transport / fractional position / resampler window unchanged, still WaitingToResume
#[kani::proof]
#[kani::unwind(8)]
#[kani::stub(f32::powf, powf32_model)]
fn c03_4f_waiting_to_resume_lean() {
    let src = any_frames3();
    let (mut s, h) = build(src, StaticSoundSettings::new(), None);
    let info = empty_info();
    s.playback_state_manager = crate::playback_state_manager::kani_proofs::waiting_manager(StartTime::Delayed(Duration::from_secs(1)));
    let (p0, f0, r0) = (s.transport.position, s.fractional_position, s.resampler.current_frame_index());
    let mut out = [Frame::new(1.0, 1.0); 2];
    s.process(&mut out, 1.0 / 48000.0, &info);
    assert!(same(out[0], Frame::ZERO) && same(out[1], Frame::ZERO), "C03.4f: a sound waiting to resume emits exact silence");
    assert!(s.transport.position == p0 && s.fractional_position == f0 && s.resampler.current_frame_index() == r0, "C03.4f: and its position does not advance");
    assert!(s.playback_state_manager.playback_state() == PlaybackState::WaitingToResume, "C03.4f: still waiting after the chunk");
    kani::cover!(true);
    core::mem::forget(info); core::mem::forget(s); core::mem::forget(h);
}

// @ob id=C03.4e strength=bounded tier=quick timeout=1800 bound="as C03.4c" fn=sound/static_sound/sound.rs::<StaticSound as Sound>::process
// @req stopped through the real stop path (zero-length fade)
// @ens Stopped after one update: finished, exact silence, frozen position; the handle reports Stopped
#[kani::proof]
#[kani::unwind(8)]
fn c03_4e_stopped() { run_frozen(3) }

// @ob id=C11.1a strength=bounded tier=thorough timeout=7200 bound="3 symbolic frames, sample_rate 1, dt 1 (rate 1); 2 output frames rendered as one 2-frame call vs two 1-frame calls" fn=sound/static_sound/sound.rs::<StaticSound as Sound>::process
// @req two identical sounds (same data, default settings, constant parameters)
// @ens the rendered frames are bit-identical and so is the playback position afterwards, whatever the buffer size
#[kani::proof]
#[kani::unwind(8)]
fn c11_1a_static_sound_chunk_independent() {
    let src = any_frames3();
    let (mut a, ha) = build(src, StaticSoundSettings::new(), None);
    let (mut b, hb) = build(src, StaticSoundSettings::new(), None);
    let info = empty_info();
    let mut x = [Frame::ZERO; 2];
    a.process(&mut x, 1.0, &info);
    let mut y = [Frame::ZERO; 2];
    b.process(&mut y[0..1], 1.0, &info);
    b.process(&mut y[1..2], 1.0, &info);
    assert!(same(x[0], y[0]) && same(x[1], y[1]), "C11.1a: rendered audio does not depend on the buffer size");
    assert!(same(x[0], src[0]) && same(x[1], src[1]), "C04.8: and is the source");
    assert!(a.transport.position == b.transport.position && a.fractional_position == b.fractional_position && a.resampler.current_frame_index() == b.resampler.current_frame_index(), "C11.1a: nor does the playback position");
    kani::cover!(src[0].left != src[1].left);
    core::mem::forget(info); core::mem::forget(a); core::mem::forget(b); core::mem::forget(ha); core::mem::forget(hb);
}

// @ob id=C04.9a,C07.2c strength=bounded tier=quick timeout=1800 bound="3 symbolic frames, slice (1,3) (2 frames visible), sample rate 1; one set_loop_region / seek_to command, two callbacks" fn=sound/static_sound/sound.rs::StaticSound::{read_commands,seek_to,seek_to_index,on_start_processing}
// @req a sliced sound; the handle issues set_loop_region(0.. to the end of the audio) and seek_to(1.0 s) before a callback
// @ens the open-ended loop region ends at the end of the SLICE (num_frames of the slice, not of the underlying data); the seek lands on frame round-to-index(1.0 x sample_rate) of the slice and pushes exactly one frame into the resampler; a second callback without new commands re-applies nothing; the position reported to the handle is the heard frame / sample rate
#[kani::proof]
#[kani::unwind(8)]
fn c04_9a_commands_respect_the_slice() {
    let src = any_frames3();
    let (mut s, mut h) = build(src, StaticSoundSettings::new(), Some((1, 3)));
    assert!(num_frames(&s.frames, s.slice) == 2, "C04.9a: the slice exposes two frames");
    h.set_loop_region(Region { start: PlaybackPosition::Samples(0), end: EndPosition::EndOfAudio });
    s.on_start_processing();
    assert!(s.transport.loop_region == Some((0, 2)), "C04.9a: a loop to the end of the audio ends at the end of the slice");
    let pos_before = s.transport.position;
    s.on_start_processing();
    assert!(s.transport.loop_region == Some((0, 2)) && s.transport.position == pos_before, "C07.2c: commands are applied exactly once");
    h.seek_to(1.0);
    let heard_before = s.resampler.current_frame_index();
    s.on_start_processing();
    assert!(h.position() == heard_before as f64, "C04.9a: the reported position names the frame being heard (sample rate 1)");
    assert!(s.transport.position == 1, "C04.9a: seek_to lands on the requested frame");
    s.on_start_processing();
    assert!(s.transport.position == 1, "C07.2c: the seek is not re-applied at the next callback");
    kani::cover!(true);
    core::mem::forget(s); core::mem::forget(h);
}

// @ob id=C07.2g strength=bounded tier=quick timeout=800 bound="single thread; 3 symbolic frames, sample rate 1; the sound Playing, Paused or WaitingToResume; all nine command kinds issued in one gap from Playing, the six that keep the state from the frozen states (zero-length tweens), one callback" axioms=EXP10 fn=sound/static_sound/sound.rs::StaticSound::{read_commands,on_start_processing}
// @req a static sound in any of three states of its state machine; the handle issues one command of EVERY kind before the callback
// @ens after the callback every command reader of the sound returns None: no command is left pending (so none can be applied late), whatever the playback state
#[kani::proof]
#[kani::unwind(8)]
#[kani::stub(f32::powf, powf32_model)]
fn c07_2g_static_sound_readers_are_drained() {
    let src = any_frames3();
    let (mut s, mut h) = build(src, StaticSoundSettings::new(), None);
    let zt = Tween { start_time: StartTime::Immediate, duration: Duration::ZERO, easing: crate::Easing::Linear };
    let which = kani::any::<u8>() % 3;
    match which {
        0 => {}
        1 => s.playback_state_manager = crate::playback_state_manager::kani_proofs::paused_manager(),
        _ => s.playback_state_manager = crate::playback_state_manager::kani_proofs::waiting_manager(StartTime::Delayed(Duration::from_secs(1))),
    }
    h.set_volume(Decibels(-6.0), zt);
    h.set_playback_rate(crate::PlaybackRate(2.0), zt);
    h.set_panning(Panning(0.5), zt);
    h.set_loop_region(Region { start: PlaybackPosition::Samples(0), end: EndPosition::EndOfAudio });
    // the state-changing commands only from Playing: in the frozen states the state must stay frozen while the other readers are drained
    if which == 0 {
        h.pause(zt);
        h.resume(zt);
        h.stop(zt);
    }
    h.seek_by(1.0);
    h.seek_to(1.0);
    s.on_start_processing();
    assert!(s.command_readers.set_volume.read().is_none() && s.command_readers.set_playback_rate.read().is_none() && s.command_readers.set_panning.read().is_none(), "C07.2g: parameter command readers drained");
    assert!(s.command_readers.set_loop_region.read().is_none(), "C07.2g: set_loop_region drained");
    assert!(s.command_readers.pause.read().is_none() && s.command_readers.resume.read().is_none() && s.command_readers.stop.read().is_none(), "C07.2g: pause/resume/stop drained");
    assert!(s.command_readers.seek_by.read().is_none() && s.command_readers.seek_to.read().is_none(), "C07.2g: seeks drained");
    kani::cover!(true);
    core::mem::forget(s); core::mem::forget(h);
}

// @ob id=C04.8g,C02.6a strength=bounded tier=quick timeout=1800 bound="3 symbolic frames, sample_rate 1, dt 1; volume -60 dB or panning hard left (fixed settings); 2 one-frame callbacks" axioms=EXP10 fn=sound/static_sound/sound.rs::<StaticSound as Sound>::process
// @req a sound built with volume -60 dB, or with panning -1 (hard left)
// @ens the sound's own volume and panning are applied to every frame: at -60 dB the output is exact silence while the playback position still advances; panned hard left the right channel is exactly zero and the left channel carries the left source sample (sign kept, not attenuated)
#[kani::proof]
#[kani::unwind(8)]
#[kani::stub(f32::powf, powf32_model)]
fn c04_8g_volume_and_panning_applied() {
    let src = any_frames3();
    let silent: bool = kani::any();
    let mut st = StaticSoundSettings::new();
    if silent { st.volume = crate::Value::Fixed(Decibels(-60.0)); } else { st.panning = crate::Value::Fixed(Panning(-1.0)); }
    let (mut s, h) = build(src, st, None);
    let info = empty_info();
    let a = s.process_one(1.0, &info);
    let b = s.process_one(1.0, &info);
    if silent {
        assert!(same(a, Frame::ZERO) && same(b, Frame::ZERO), "C04.8g: a sound at -60 dB is silent");
        assert!(s.resampler.current_frame_index() == 2, "C04.8g: but keeps playing");
    } else {
        assert!(a.right == 0.0 && b.right == 0.0, "C04.8g: hard-left panning silences the right channel");
        assert!((a.left >= 0.0) == (src[0].left >= 0.0) || a.left == 0.0, "C04.8g: the left channel keeps the source's sign");
        assert!(a.left.abs() >= src[0].left.abs(), "C04.8g: and is not attenuated");
    }
    kani::cover!(silent);
    kani::cover!(!silent);
    core::mem::forget(info); core::mem::forget(s); core::mem::forget(h);
}

// @ob id=C03.3a strength=complete tier=quick timeout=1800 fn=sound/static_sound/sound.rs::Shared::{set_state,state}
// @req every one of the seven playback states
// @ens state(set_state(s)) == s and never panics (the handle reports exactly what the sound stored)
#[kani::proof]
#[kani::unwind(3)]
fn c03_3a_static_shared_state_roundtrip() {
    let sh = Shared { state: AtomicU8::new(0), position: AtomicU64::new(0) };
    let s = match kani::any::<u8>() % 7 { 0 => PlaybackState::Playing, 1 => PlaybackState::Pausing, 2 => PlaybackState::Paused, 3 => PlaybackState::WaitingToResume, 4 => PlaybackState::Resuming, 5 => PlaybackState::Stopping, _ => PlaybackState::Stopped };
    sh.set_state(s);
    assert!(sh.state() == s, "C03.3a: the handle reports exactly the state the sound stored");
    kani::cover!(s == PlaybackState::WaitingToResume);
}

// @ob id=C04.9b strength=bounded tier=quick timeout=800 bound="3 symbolic frames, sample rate 1, no slice; one seek_by command with a negative or positive whole amount" fn=sound/static_sound/sound.rs::StaticSound::{seek_by,seek_to_index,read_commands}
// @req a freshly built sound (its transport has already run ahead by the three pre-filled frames and rests at frame 3); the handle issues seek_by(-2.0) or seek_by(+1.0)
// @ens the transport lands on current position + amount (in frames at sample rate 1): 1 resp. 4; a seek beyond the end leaves it stopped; the seek is applied once
#[kani::proof]
#[kani::unwind(8)]
fn c04_9b_seek_by_is_relative_to_the_transport() {
    let src = any_frames3();
    let (mut s, mut h) = build(src, StaticSoundSettings::new(), None);
    assert!(s.transport.position == 3 && !s.transport.playing, "C04.9b: after the pre-fill the transport rests at the end of a 3-frame sound");
    let back: bool = kani::any();
    h.seek_by(if back { -2.0 } else { 1.0 });
    s.on_start_processing();
    assert!(s.transport.position == if back { 1 } else { 4 }, "C04.9b: seek_by moves the transport by the requested amount");
    assert!(!s.transport.playing, "C04.9b: a seek never restarts a stopped transport");
    s.on_start_processing();
    assert!(s.transport.position == if back { 1 } else { 4 }, "C07.2: the seek is not applied twice");
    kani::cover!(back);
    core::mem::forget(s); core::mem::forget(h);
}
