//! C01.3 / C04.5 — slice-relative frame lookup on real slices (Kani twin of the Verus unit `static_data`: gives
//! concrete counterexamples, and covers the public constructors that feed the lookup).
use super::*;
use crate::kani_support::*;

fn frames3() -> [Frame; 3] {
    [Frame::new(kani::any(), kani::any()), Frame::new(kani::any(), kani::any()), Frame::new(kani::any(), kani::any())]
}

// @ob id=C01.3w,C04.5w strength=bounded tier=quick bound="frame data of length 0..=3; slice and index arbitrary usize" fn=sound/static_sound/data.rs::{num_frames,frame_at_index}
// @req any slice (start, end) of arbitrary numbers (also beyond the data, also end < start), any index
// @ens no panic; a returned frame is frames[start+index] with start+index inside both the slice and the data; for a slice inside the data exactly the indices below end-start resolve
#[kani::proof]
#[kani::unwind(5)]
fn c01_3w_lookup_never_reads_outside() {
    let data = frames3();
    let len: usize = kani::any();
    kani::assume(len <= 3);
    let frames = &data[..len];
    let slice: Option<(usize, usize)> = if kani::any() { Some((kani::any(), kani::any())) } else { None };
    let index: usize = kani::any();
    let n = num_frames(frames, slice);
    let r = frame_at_index(index, frames, slice);
    let start = slice.map(|s| s.0).unwrap_or(0);
    match r {
        Some(f) => {
            assert!(index < n, "C04.5w: only indices below num_frames resolve");
            assert!(start + index < len, "C01.3w: never reads outside the data");
            if let Some((s, e)) = slice { assert!(s + index < e, "C04.5w: never reads outside its slice"); }
            let g = frames[start + index];
            assert!(f.left.to_bits() == g.left.to_bits() && f.right.to_bits() == g.right.to_bits(), "C04.5w: returns the source frame bit-exactly");
        }
        None => assert!(index >= n, "C04.5w: every index below num_frames resolves"),
    }
    if let Some((s, e)) = slice { if s <= e && e <= len { assert!(n == e - s, "C04.5w: a slice inside the data has end-start frames"); } }
    else { assert!(n == len, "C04.5w: no slice => all frames"); }
    kani::cover!(r.is_some() && slice.is_some());
    kani::cover!(matches!(slice, Some((s, e)) if e > len && s < len));
    kani::cover!(matches!(slice, Some((s, e)) if e < s));
}
