//! Support code shared by all Kani harness modules (injected as `crate::kani_support`, compiled only under cfg(kani)).
//!
//! * libm models: CBMC leaves `powf/powi/sin/tan/exp/log10` nondeterministic (or unsupported).  Each model below
//!   returns a nondeterministic value constrained by a *named axiom set* (DESIGN.md §4.3) and is made functional
//!   (same arguments => same result) and monotone across calls through a small memo table.  They are
//!   ASSUMPTIONS about libm and are listed in every evidence file whose obligations use them.
//! * `close`, `finite32/64`, bounded `any_*` generators.
#![allow(dead_code, static_mut_refs)]

pub const MEMO: usize = 6;

pub struct Memo2 {
    pub n: usize,
    pub a: [f64; MEMO],
    pub b: [f64; MEMO],
    pub r: [f64; MEMO],
}

impl Memo2 {
    pub const fn new() -> Self {
        Memo2 { n: 0, a: [0.0; MEMO], b: [0.0; MEMO], r: [0.0; MEMO] }
    }
    fn push(&mut self, a: f64, b: f64, r: f64) {
        if self.n < MEMO {
            self.a[self.n] = a;
            self.b[self.n] = b;
            self.r[self.n] = r;
            self.n += 1;
        }
    }
}

static mut POW_MEMO: Memo2 = Memo2::new();
static mut SIN_MEMO: Memo2 = Memo2::new();
static mut TAN_MEMO: Memo2 = Memo2::new();
static mut EXP_MEMO: Memo2 = Memo2::new();
static mut LOG10_MEMO: Memo2 = Memo2::new();
/// number of calls into any libm model (for covers / call-count assertions)
pub static mut LIBM_CALLS: usize = 0;

/// Axiom sets POW (base in [0,1], exponent > 0), EXP2 (base 2), EXP10 (base 10).  `powi` goes through the same model.
pub fn pow_model(x: f64, p: f64) -> f64 {
    unsafe {
        LIBM_CALLS += 1;
        // functional
        let mut i = 0;
        while i < MEMO {
            if i < POW_MEMO.n && POW_MEMO.a[i].to_bits() == x.to_bits() && POW_MEMO.b[i].to_bits() == p.to_bits() {
                return POW_MEMO.r[i];
            }
            i += 1;
        }
        let r: f64 = kani::any();
        if x.is_nan() || p.is_nan() {
            // IEEE: pow(x, 0) = 1 and pow(1, y) = 1 even for NaN; otherwise NaN.  Nothing is promised here.
        } else if p == 0.0 {
            kani::assume(r == 1.0); // C99: pow(x, ±0) == 1 for every x
        } else if x == 2.0 {
            // EXP2
            kani::assume(r > 0.0 || p < -1000.0);
            kani::assume(!r.is_nan() && r >= 0.0);
            kani::assume(p != 1.0 || r == 2.0);
            kani::assume(p < 0.0 || r >= 1.0);
            kani::assume(p > 0.0 || r <= 1.0);
            kani::assume(p < 1e-9 || r > 1.0);
            kani::assume(p > -1e-9 || r < 1.0);
            kani::assume(p.abs() > 1000.0 || r.is_finite());
        } else if x == 10.0 {
            // EXP10
            kani::assume(!r.is_nan() && r >= 0.0);
            kani::assume(p < -37.0 || r > 0.0);
            kani::assume(p > 38.0 || r.is_finite());
            kani::assume(p < 0.0 || r >= 1.0);
            kani::assume(p > 0.0 || r <= 1.0);
            kani::assume(p < 1e-6 || r > 1.0);
            kani::assume(p > -1e-6 || r < 1.0);
            kani::assume(p != -3.0 || (r >= 0.000999 && r <= 0.001001));
            // growth bounds (decade brackets): 10^p <= 10^ceil(p) and >= 10^floor(p) for |p| <= 6
            kani::assume(p > 1.0 || r <= 10.0);
            kani::assume(p > 2.0 || r <= 100.0);
            kani::assume(p > 6.0 || r <= 1.0e6);
            kani::assume(p < -1.0 || r >= 0.1);
            kani::assume(p < -2.0 || r >= 0.01);
            kani::assume(p < -6.0 || r >= 1.0e-6);
        } else if x >= 0.0 && x <= 1.0 && p > 0.0 {
            // POW
            kani::assume(r >= 0.0 && r <= 1.0);
            kani::assume(x != 0.0 || r == 0.0);
            kani::assume(x != 1.0 || r == 1.0);
            kani::assume(p != 1.0 || r == x);
        }
        // monotonicity against earlier calls
        let mut i = 0;
        while i < MEMO {
            if i < POW_MEMO.n {
                let (xa, pa, ra) = (POW_MEMO.a[i], POW_MEMO.b[i], POW_MEMO.r[i]);
                if xa == x && (x == 2.0 || x == 10.0) && !p.is_nan() && !pa.is_nan() {
                    // monotone in the exponent for bases > 1
                    if pa <= p { kani::assume(ra <= r); }
                    if pa >= p { kani::assume(ra >= r); }
                }
                if pa == p && p > 0.0 && x >= 0.0 && x <= 1.0 && xa >= 0.0 && xa <= 1.0 {
                    // monotone in the base for positive exponents
                    if xa <= x { kani::assume(ra <= r); }
                    if xa >= x { kani::assume(ra >= r); }
                }
            }
            i += 1;
        }
        POW_MEMO.push(x, p, r);
        r
    }
}

pub fn powf64_model(x: f64, p: f64) -> f64 { pow_model(x, p) }
pub fn powi64_model(x: f64, n: i32) -> f64 { pow_model(x, n as f64) }
/// f32 version: result rounded to f32 (monotone rounding keeps every axiom)
pub fn powf32_model(x: f32, p: f32) -> f32 {
    let r = pow_model(x as f64, p as f64) as f32;
    // rounding to f32 may underflow to 0 or overflow to inf outside [-37, 38]; inside, keep positivity/finiteness
    if x == 10.0 && p >= -37.0 && p <= 38.0 {
        kani::assume(r > 0.0 && r.is_finite());
    }
    r
}

/// Axiom set SIN: |sin x| <= 1, sin 0 = 0, functional.  (No monotonicity: callers need only the range.)
pub fn sin64_model(x: f64) -> f64 {
    unsafe {
        LIBM_CALLS += 1;
        let mut i = 0;
        while i < MEMO {
            if i < SIN_MEMO.n && SIN_MEMO.a[i].to_bits() == x.to_bits() { return SIN_MEMO.r[i]; }
            i += 1;
        }
        let r: f64 = kani::any();
        if x.is_finite() {
            kani::assume(r >= -1.0 && r <= 1.0);
            kani::assume(x != 0.0 || r == 0.0);
        }
        SIN_MEMO.push(x, 0.0, r);
        r
    }
}
pub fn sin32_model(x: f32) -> f32 { sin64_model(x as f64) as f32 }

/// Axiom set TAN on [0, pi/2): tan x >= x >= 0, finite, monotone, functional.
pub fn tan64_model(x: f64) -> f64 {
    unsafe {
        LIBM_CALLS += 1;
        let mut i = 0;
        while i < MEMO {
            if i < TAN_MEMO.n && TAN_MEMO.a[i].to_bits() == x.to_bits() { return TAN_MEMO.r[i]; }
            i += 1;
        }
        let r: f64 = kani::any();
        if x >= 0.0 && x <= 1.5707963267948966 {
            // on [0, fl(pi/2)]: tan x >= x, finite (tan(fl(pi/2)) = 1.633e16), monotone
            kani::assume(r >= x && r.is_finite() && r <= 1.7e16);
            let mut i = 0;
            while i < MEMO {
                if i < TAN_MEMO.n && TAN_MEMO.a[i] >= 0.0 && TAN_MEMO.a[i] <= 1.5707963267948966 {
                    if TAN_MEMO.a[i] <= x { kani::assume(TAN_MEMO.r[i] <= r); }
                    if TAN_MEMO.a[i] >= x { kani::assume(TAN_MEMO.r[i] >= r); }
                }
                i += 1;
            }
        }
        TAN_MEMO.push(x, 0.0, r);
        r
    }
}
pub fn tan32_model(x: f32) -> f32 { tan64_model(x as f64) as f32 }

/// Axiom set EXP: e^x > 0 (>= 0 after underflow), e^0 = 1, x <= 0 <=> e^x <= 1, monotone, functional.
pub fn exp64_model(x: f64) -> f64 {
    unsafe {
        LIBM_CALLS += 1;
        let mut i = 0;
        while i < MEMO {
            if i < EXP_MEMO.n && EXP_MEMO.a[i].to_bits() == x.to_bits() { return EXP_MEMO.r[i]; }
            i += 1;
        }
        let r: f64 = kani::any();
        if !x.is_nan() {
            kani::assume(!r.is_nan() && r >= 0.0);
            kani::assume(x != 0.0 || r == 1.0);
            kani::assume(x < 0.0 || r >= 1.0);
            kani::assume(x > 0.0 || r <= 1.0);
            kani::assume(x > 700.0 || r.is_finite());
            kani::assume(x < -700.0 || r > 0.0);
            let mut i = 0;
            while i < MEMO {
                if i < EXP_MEMO.n && !EXP_MEMO.a[i].is_nan() {
                    if EXP_MEMO.a[i] <= x { kani::assume(EXP_MEMO.r[i] <= r); }
                    if EXP_MEMO.a[i] >= x { kani::assume(EXP_MEMO.r[i] >= r); }
                }
                i += 1;
            }
        }
        EXP_MEMO.push(x, 0.0, r);
        r
    }
}
pub fn exp32_model(x: f32) -> f32 { exp64_model(x as f64) as f32 }

/// Axiom set LOG10: finite for positive finite x, log10 1 = 0, x <= 1 <=> log10 x <= 0, monotone, functional,
/// -inf at 0, NaN below 0.
pub fn log10_64_model(x: f64) -> f64 {
    unsafe {
        LIBM_CALLS += 1;
        let mut i = 0;
        while i < MEMO {
            if i < LOG10_MEMO.n && LOG10_MEMO.a[i].to_bits() == x.to_bits() { return LOG10_MEMO.r[i]; }
            i += 1;
        }
        let r: f64 = kani::any();
        if x > 0.0 && x.is_finite() {
            kani::assume(r.is_finite() && r >= -400.0 && r <= 400.0);
            kani::assume(x != 1.0 || r == 0.0);
            kani::assume(x < 1.0 || r >= 0.0);
            kani::assume(x > 1.0 || r <= 0.0);
            let mut i = 0;
            while i < MEMO {
                if i < LOG10_MEMO.n && LOG10_MEMO.a[i] > 0.0 && LOG10_MEMO.a[i].is_finite() {
                    if LOG10_MEMO.a[i] <= x { kani::assume(LOG10_MEMO.r[i] <= r); }
                    if LOG10_MEMO.a[i] >= x { kani::assume(LOG10_MEMO.r[i] >= r); }
                }
                i += 1;
            }
        } else if x == 0.0 {
            kani::assume(r == f64::NEG_INFINITY);
        } else if x < 0.0 {
            kani::assume(r.is_nan());
        }
        LOG10_MEMO.push(x, 0.0, r);
        r
    }
}
pub fn log10_32_model(x: f32) -> f32 { log10_64_model(x as f64) as f32 }

/// K-R1 replacement for the float `% 1.0` operator (CBMC's frem model is wrong: 0.5 % 1.0 == 0.0 there).
/// x - trunc(x) is exactly IEEE fmod(x, 1.0) for every finite x (the subtraction is exact, the sign follows x).
pub fn rem1(x: f64) -> f64 {
    if x.is_finite() { let r = x - x.trunc(); if r == 0.0 && x.is_sign_negative() { -0.0 } else { r } } else { f64::NAN }
}

// ---------------------------------------------------------------------------------------------------------------
// numeric helpers
// ---------------------------------------------------------------------------------------------------------------

/// |a-b| <= rel * max(|a|,|b|) + abs   (bit-exact CBMC float arithmetic)
pub fn close64(a: f64, b: f64, rel: f64, abs: f64) -> bool {
    let m = if a.abs() > b.abs() { a.abs() } else { b.abs() };
    (a - b).abs() <= rel * m + abs
}
pub fn close32(a: f32, b: f32, rel: f32, abs: f32) -> bool {
    let m = if a.abs() > b.abs() { a.abs() } else { b.abs() };
    (a - b).abs() <= rel * m + abs
}

pub fn any_f64_in(lo: f64, hi: f64) -> f64 {
    let x: f64 = kani::any();
    kani::assume(x >= lo && x <= hi);
    x
}
pub fn any_f32_in(lo: f32, hi: f32) -> f32 {
    let x: f32 = kani::any();
    kani::assume(x >= lo && x <= hi);
    x
}
pub fn any_finite32() -> f32 {
    let x: f32 = kani::any();
    kani::assume(x.is_finite());
    x
}
pub fn any_finite64() -> f64 {
    let x: f64 = kani::any();
    kani::assume(x.is_finite());
    x
}

// ---------------------------------------------------------------------------------------------------------------
// arena keys
// ---------------------------------------------------------------------------------------------------------------

/// `any_small_key(cap)`: a key whose index AND generation are both below `cap` (valid to look up in an arena of
/// capacity >= cap: `Arena::get` indexes its slot vector with the key's index, so only keys minted for an arena of the
/// same capacity may be used with it -- kira never mixes id types).
/// An arbitrary `atomic_arena::Key` (two private `usize` fields: index and generation).  Built by transmuting
/// two symbolic words; both fields have the same type so the (unspecified) field order does not matter.
pub fn any_small_key(cap: usize) -> atomic_arena::Key {
    let raw: (usize, usize) = (kani::any(), kani::any());
    kani::assume(raw.0 < cap && raw.1 < cap);
    unsafe { core::mem::transmute::<(usize, usize), atomic_arena::Key>(raw) }
}

pub fn any_key() -> atomic_arena::Key {
    let raw: (usize, usize) = (kani::any(), kani::any());
    unsafe { core::mem::transmute::<(usize, usize), atomic_arena::Key>(raw) }
}

// ---------------------------------------------------------------------------------------------------------------
// generators for crate types
// ---------------------------------------------------------------------------------------------------------------

/// Any built-in easing with a positive power (integer powers 1..=64, float powers in [1e-3, 64]).
pub fn any_easing() -> crate::Easing {
    use crate::Easing;
    let pi: i32 = kani::any();
    kani::assume(pi >= 1 && pi <= 64);
    let pf = any_f64_in(1.0e-3, 64.0);
    match kani::any::<u8>() % 7 {
        0 => Easing::Linear,
        1 => Easing::InPowi(pi),
        2 => Easing::OutPowi(pi),
        3 => Easing::InOutPowi(pi),
        4 => Easing::InPowf(pf),
        5 => Easing::OutPowf(pf),
        _ => Easing::InOutPowf(pf),
    }
}

// ---------------------------------------------------------------------------------------------------------------
// uninterpreted (recording) stubs for modular proofs: callers are checked against "what was called with what"
// ---------------------------------------------------------------------------------------------------------------
pub const REC: usize = 4;
pub static mut TV_N: usize = 0;
pub static mut TV_TIME: [f64; REC] = [0.0; REC];
pub static mut TV_RET: [f64; REC] = [0.0; REC];
pub static mut TV_DUR: [f64; REC] = [0.0; REC];

/// Recording stand-in for `Tween::value(&self, time)`: returns an arbitrary value in [0,1] and records (duration, time, result).
/// Contract assumed here and proved separately (C06.4e): result in [0,1] for 0 <= time <= duration.
pub fn tween_value_rec(this: &crate::Tween, time: f64) -> f64 {
    let r = any_f64_in(0.0, 1.0);
    unsafe {
        if TV_N < REC {
            TV_TIME[TV_N] = time;
            TV_RET[TV_N] = r;
            TV_DUR[TV_N] = this.duration.as_secs_f64();
        }
        TV_N += 1;
    }
    r
}

pub static mut IP_N: usize = 0;
pub static mut IP_A: [f64; REC] = [0.0; REC];
pub static mut IP_B: [f64; REC] = [0.0; REC];
pub static mut IP_T: [f64; REC] = [0.0; REC];
pub static mut IP_RET: [f64; REC] = [0.0; REC];

/// Recording stand-in for `<f64 as Tweenable>::interpolate(a, b, amount)`.
pub fn interpolate_f64_rec(a: f64, b: f64, amount: f64) -> f64 {
    let r: f64 = kani::any();
    kani::assume(r.is_finite());
    unsafe {
        if IP_N < REC {
            IP_A[IP_N] = a;
            IP_B[IP_N] = b;
            IP_T[IP_N] = amount;
            IP_RET[IP_N] = r;
        }
        IP_N += 1;
    }
    r
}

pub static mut EA_N: usize = 0;
pub static mut EA_X: [f64; REC] = [0.0; REC];
pub static mut EA_RET: [f64; REC] = [0.0; REC];

/// Recording stand-in for `Easing::apply(&self, x)` (contract C19.7: [0,1] -> [0,1], 0 -> 0, 1 -> 1).
pub fn easing_apply_rec(_this: &crate::Easing, x: f64) -> f64 {
    let r = any_f64_in(0.0, 1.0);
    kani::assume(x != 0.0 || r == 0.0);
    kani::assume(x != 1.0 || r == 1.0);
    unsafe {
        if EA_N < REC { EA_X[EA_N] = x; EA_RET[EA_N] = r; }
        EA_N += 1;
    }
    r
}

// ---------------------------------------------------------------------------------------------------------------
// probe Sound / Effect implementations for object-level harnesses
// ---------------------------------------------------------------------------------------------------------------
pub const NPROBE: usize = 4;
pub static mut PS_START: [usize; NPROBE] = [0; NPROBE];
pub static mut PS_CALLS: [usize; NPROBE] = [0; NPROBE];
pub static mut PS_FRAMES: [usize; NPROBE] = [0; NPROBE];
pub static mut PS_MAXLEN: [usize; NPROBE] = [0; NPROBE];
pub static mut PS_DT: [f64; NPROBE] = [0.0; NPROBE];
pub static mut PS_FINISHED: [bool; NPROBE] = [false; NPROBE];
pub static mut PS_DROPS: [usize; NPROBE] = [0; NPROBE];

/// A sound that overwrites its output slice with a constant frame and counts how it is driven.
pub struct ProbeSound {
    pub id: usize,
    pub value: crate::Frame,
}

impl crate::sound::Sound for ProbeSound {
    fn on_start_processing(&mut self) { unsafe { PS_START[self.id] += 1; } }
    fn process(&mut self, out: &mut [crate::Frame], dt: f64, _info: &crate::info::Info) {
        unsafe {
            PS_CALLS[self.id] += 1;
            PS_FRAMES[self.id] += out.len();
            if out.len() > PS_MAXLEN[self.id] { PS_MAXLEN[self.id] = out.len(); }
            PS_DT[self.id] = dt;
        }
        let mut i = 0;
        while i < out.len() { out[i] = self.value; i += 1; }
    }
    fn finished(&self) -> bool { unsafe { PS_FINISHED[self.id] } }
}

impl Drop for ProbeSound {
    fn drop(&mut self) { unsafe { PS_DROPS[self.id] += 1; } }
}

pub static mut PE_CALLS: [usize; NPROBE] = [0; NPROBE];
pub static mut PE_FRAMES: [usize; NPROBE] = [0; NPROBE];
pub static mut PE_RATE: [u32; NPROBE] = [0; NPROBE];
pub static mut PE_START: [usize; NPROBE] = [0; NPROBE];
pub static mut PE_ORDER: [usize; NPROBE] = [0; NPROBE];
pub static mut PE_TICK: usize = 0;

/// An effect that scales by an exact power of two (default 0.5) and then adds `add` to the left channel,
/// so that the ORDER of two probe effects is observable: (x*g1 + a1)*g2 + a2.
pub struct ProbeEffect {
    pub id: usize,
    pub gain: f32,
    pub add: f32,
}

impl crate::effect::Effect for ProbeEffect {
    fn init(&mut self, sample_rate: u32, _internal_buffer_size: usize) { unsafe { PE_RATE[self.id] = sample_rate; } }
    fn on_change_sample_rate(&mut self, sample_rate: u32) { unsafe { PE_RATE[self.id] = sample_rate; } }
    fn on_start_processing(&mut self) { unsafe { PE_START[self.id] += 1; } }
    fn process(&mut self, input: &mut [crate::Frame], _dt: f64, _info: &crate::info::Info) {
        unsafe {
            PE_CALLS[self.id] += 1;
            PE_FRAMES[self.id] += input.len();
            PE_TICK += 1;
            PE_ORDER[self.id] = PE_TICK;
        }
        let mut i = 0;
        while i < input.len() {
            input[i] = crate::Frame::new(input[i].left * self.gain + self.add, input[i].right * self.gain);
            i += 1;
        }
    }
}

/// a sample on the dyadic grid k/8, |k| <= 16 (sums and power-of-two scalings of a few such values are exact in f32)
pub fn grid_sample() -> f32 {
    let k: i8 = kani::any();
    kani::assume(k >= -16 && k <= 16);
    k as f32 / 8.0
}
pub fn grid_frame() -> crate::Frame { crate::Frame::new(grid_sample(), grid_sample()) }

pub static mut IP32_N: usize = 0;
pub static mut IP32_A: [f32; REC] = [0.0; REC];
pub static mut IP32_B: [f32; REC] = [0.0; REC];
pub static mut IP32_T: [f64; REC] = [0.0; REC];
pub static mut IP32_RET: [f32; REC] = [0.0; REC];

/// Recording stand-in for `<f32 as Tweenable>::interpolate(a, b, amount)`.
pub fn interpolate_f32_rec(a: f32, b: f32, amount: f64) -> f32 {
    let r: f32 = kani::any();
    kani::assume(r.is_finite());
    unsafe {
        if IP32_N < REC { IP32_A[IP32_N] = a; IP32_B[IP32_N] = b; IP32_T[IP32_N] = amount; IP32_RET[IP32_N] = r; }
        IP32_N += 1;
    }
    r
}

/// Stand-in for `<Vec<T> as Drop>::drop` in object-level harnesses: dropping the *elements* of a vector is skipped
/// (they leak).  This cuts the recursive drop glue (`Box<dyn Effect>` -> `Delay` -> `Vec<Box<dyn Effect>>` ...,
/// `Track` -> `Arena<Track>` -> ...) that CBMC otherwise unrolls at every arena-slot assignment; none of the
/// obligations that use it is about destruction.
pub fn vec_drop_noop<T>(_v: &mut Vec<T>) {}

/// Stand-in for `core::ptr::drop_in_place` (explicit calls only, i.e. the element-dropping calls inside `Vec`,
/// `VecDeque`, `Box<[T]>` ... drop impls): elements leak instead of being dropped.  Same purpose as above.
pub unsafe fn drop_in_place_noop<T: ?Sized>(_to_drop: *mut T) {}
