"""dev loop: persistent scratch crate at $KDEV (default /var/tmp/kdev); resync harness files; run given harnesses.
usage: dev.py [-t secs] [-j N] [--repo DIR] [--playback] <harness substring or full name> ..."""
import os, sys, shutil, subprocess, time, argparse
HERE = os.path.dirname(os.path.abspath(__file__)); sys.path.insert(0, HERE)
ap = argparse.ArgumentParser()
ap.add_argument('-t', type=int, default=300); ap.add_argument('-j', type=int, default=8)
ap.add_argument('--repo'); ap.add_argument('--playback', action='store_true'); ap.add_argument('--fresh', action='store_true')
ap.add_argument('--solver'); ap.add_argument('names', nargs='+')
a = ap.parse_args()
if a.repo: os.environ['VERIF_REPO'] = a.repo
import kani_crate, extract
KDEV = os.environ.get('KDEV', '/var/tmp/kdev')
hs_all = kani_crate.parse_harnesses()
hs = [h for h in hs_all if any(n == h['full'] or n in h['full'] for n in a.names)]
if not hs: sys.exit('no harness matches')
mods = sorted({h['module'] for h in hs})
crate = os.path.join(KDEV, 'kira')
if a.fresh: shutil.rmtree(KDEV, ignore_errors=True)
tgt_save = None
if os.path.isdir(os.path.join(crate, 'target')):
    tgt_save = os.path.join(KDEV, 'target_save'); shutil.rmtree(tgt_save, ignore_errors=True)
    os.rename(os.path.join(crate, 'target'), tgt_save)
shutil.rmtree(crate, ignore_errors=True)
os.environ['VERIF_SCRATCH'] = KDEV
os.makedirs(KDEV, exist_ok=True)
s = kani_crate.Scratch(mods, keep=True)
os.rename(s.crate, crate); shutil.rmtree(s.dir, ignore_errors=True); s.crate = crate; s.dir = KDEV
if tgt_save:
    shutil.rmtree(os.path.join(crate, 'target'), ignore_errors=True); os.rename(tgt_save, os.path.join(crate, 'target'))
extra = []
if a.playback: extra = ['-Z', 'concrete-playback', '--concrete-playback=print']
if a.solver: extra += ['--solver', a.solver]
t0 = time.time()
rc, out, wall = s.cargo_kani([h['full'] for h in hs], jobs=(1 if a.playback else a.j), harness_timeout=a.t, extra=extra)
open(os.path.join(KDEV, 'last.log'), 'w').write(out)
if 'error' in out and 'Checking harness' not in out:
    print('\n'.join(l for l in out.splitlines() if not l.startswith('warning'))[-6000:])
blocks = kani_crate.split_log(out)
for h in hs:
    b = blocks.get(h['full']); st, failed = kani_crate.classify(b)
    import re
    tm = re.search(r'Verification Time: ([0-9.]+)s', b or ''); cv = re.search(r'\*\* (\d+) of (\d+) cover', b or '')
    print('%-70s %-9s %6ss covers=%s %s' % (h['full'], st, tm.group(1)[:6] if tm else '-', cv.group(0)[3:] if cv else '-', '; '.join(failed)[:300]))
if a.playback:
    for t in kani_crate.extract_playback_tests(out): print(t[0], t[1]); print(t[3])
print('wall %.0fs' % (time.time() - t0))
