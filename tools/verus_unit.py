"""Assemble one Verus file per unit from items extracted verbatim from /repo plus the unit's spec file,
check that erasing the inserted spec text gives back the repository's executable tokens, run Verus.

Spec file grammar (line oriented; directive lines start with `//@`):

  //@ verbatim                 Verus text copied as is (spec fns, lemmas, external_body stand-ins)
  ...text...
  //@ item file=<rel path> kind=<fn|struct|enum> name=<name> [impl=<impl header>] [oblig=<id,id>] [canary]
  //@ ret <name>               name the return value:  -> T   becomes   -> (name: T)
  //@ rewrite <from> ==> <to>  declared textual rewrite of the extracted item (listed in evidence)
  //@ spec                     text spliced between signature and body (requires/ensures/decreases)
  ...text...
  //@ loop <n>                 text spliced between the n-th loop header and its body (invariant/decreases)
  ...text...
  //@ proof <where>            proof text; where = fn-start | fn-end | loop <n> start | loop <n> end
  ...text...
  //@ end                      closes an item
"""
import json, os, re, subprocess, sys, time, shlex
from rustlex import lex, match_brace, Tok
import extract
from extract import LostAnchor, norm

M_OPEN, M_CLOSE = '/*@+*/', '/*@-*/'
DROP_ATTRS = ('must_use', 'allow', 'derive', 'cfg_attr', 'inline', 'doc', 'default')


class SpecError(Exception):
    pass


def parse_spec(path):
    blocks = []  # ('verbatim', text) | ('item', dict)
    cur_item = None
    cur_kind, cur_key, buf = None, None, []

    def flush():
        nonlocal cur_kind, cur_key, buf
        text = ''.join(buf)
        if cur_kind == 'verbatim':
            blocks.append(('verbatim', text))
        elif cur_kind == 'spec':
            cur_item['spec'] = text
        elif cur_kind == 'loop':
            cur_item['loops'][cur_key] = text
        elif cur_kind == 'proof':
            cur_item['proofs'].setdefault(cur_key, '')
            cur_item['proofs'][cur_key] += text
        cur_kind, cur_key, buf = None, None, []

    for ln in open(path):
        s = ln.strip()
        if s.startswith('//@'):
            d = s[3:].strip()
            flush()
            if d == 'verbatim':
                cur_kind = 'verbatim'
            elif d.startswith('item '):
                kv = dict(x.split('=', 1) for x in shlex.split(d[5:]) if '=' in x)
                flags = [x for x in shlex.split(d[5:]) if '=' not in x]
                cur_item = dict(file=kv['file'], kind=kv['kind'], name=kv['name'], impl=kv.get('impl'),
                                oblig=[o for o in kv.get('oblig', '').split(',') if o],
                                canary='canary' in flags, ret=None, spec='', loops={}, proofs={}, rewrites=[],
                                keep_derive='keep_derive' in flags)
                blocks.append(('item', cur_item))
            elif d.startswith('ret '):
                cur_item['ret'] = d[4:].strip()
            elif d.startswith('rewrite '):
                a, b = d[8:].split('==>')
                cur_item['rewrites'].append((a.strip(), b.strip()))
            elif d == 'spec':
                cur_kind = 'spec'
            elif d.startswith('loop '):
                cur_kind, cur_key = 'loop', int(d[5:])
            elif d.startswith('proof '):
                cur_kind, cur_key = 'proof', d[6:].strip()
            elif d == 'end':
                cur_item = None
            else:
                raise SpecError('unknown directive: ' + s)
        else:
            if cur_kind is not None:
                buf.append(ln)
    flush()
    return blocks


def _strip_item(toks, keep_derive=False):
    """R1 + R5 on an item's token list: drop comments/docs, listed outer attributes, pub(..) -> pub."""
    out = []
    i = 0
    n = len(toks)
    while i < n:
        t = toks[i]
        if t.kind in ('comment', 'doc'):
            i += 1; continue
        if t.kind == 'punct' and t.text == '#':
            j = i + 1
            while j < n and toks[j].kind == 'ws': j += 1
            if j < n and toks[j].kind == 'punct' and toks[j].text == '[':
                close = match_brace(toks, j, '[', ']')
                k = j + 1
                while k < close and toks[k].kind == 'ws': k += 1
                head = toks[k].text if k < close else ''
                if head in DROP_ATTRS:
                    if head == 'derive' and keep_derive:
                        inner = ''.join(x.text for x in toks[k + 1:close])
                        keep = [d for d in ('Clone', 'Copy') if re.search(r'\b%s\b' % d, inner)]
                        if keep:
                            out.append(Tok('punct', '#[derive(%s)]' % ', '.join(keep), t.pos))
                    i = close + 1
                    continue
        if t.kind == 'ident' and t.text == 'pub':
            j = i + 1
            while j < n and toks[j].kind == 'ws': j += 1
            if j < n and toks[j].kind == 'punct' and toks[j].text == '(':
                close = match_brace(toks, j, '(', ')')
                out.append(t)
                i = close + 1
                continue
        out.append(t)
        i += 1
    return out


def _loops(toks, body_open, body_close):
    """indices of loop keywords (while/for/loop) in token order within the body, with their body braces"""
    res = []
    i = body_open + 1
    while i < body_close:
        t = toks[i]
        if t.kind == 'ident' and t.text in ('while', 'for', 'loop'):
            # `for` in `impl X for Y`/HRTB cannot occur inside a fn body except closures' types; accept
            j = i + 1
            pd = 0
            while j < body_close:
                x = toks[j]
                if x.kind == 'punct':
                    if x.text in '([': pd += 1
                    elif x.text in ')]': pd -= 1
                    elif x.text == '{' and pd == 0:
                        break
                j += 1
            res.append((i, j, match_brace(toks, j)))
        i += 1
    return res


def build_item(item):
    """returns (emitted_text, original_exec_tokens_norm, info)"""
    src, ftoks = extract.load(item['file'])
    s, b, e = extract.find_item(ftoks, item['kind'], item['name'], item['impl'])
    l0, l1 = extract.line_of(src, ftoks[s].pos), extract.line_of(src, ftoks[e].pos)
    raw = ''.join(t.text for t in ftoks[s:e + 1])
    text = raw
    for a, bb in item['rewrites']:
        if a not in text:
            raise LostAnchor('rewrite source `%s` not found in %s::%s' % (a, item['file'], item['name']))
        text = text.replace(a, bb)
    toks = _strip_item(lex(text), item['keep_derive'])
    toks = lex(''.join(t.text for t in toks))
    ref = ' '.join(t.text for t in toks if t.kind != 'ws')
    if item['kind'] != 'fn':
        emitted = ''.join(t.text for t in toks)
        return emitted, ref, dict(lines=(l0, l1), raw=raw)
    # locate body
    pd, bo = 0, None
    for i, t in enumerate(toks):
        if t.kind == 'punct':
            if t.text in '([': pd += 1
            elif t.text in ')]': pd -= 1
            elif t.text == '{' and pd == 0:
                bo = i; break
    if bo is None:
        raise LostAnchor('fn %s has no body' % item['name'])
    bc = match_brace(toks, bo)
    inserts = {}  # token index -> text inserted BEFORE that token

    def ins(idx, txt):
        inserts[idx] = inserts.get(idx, '') + M_OPEN + txt + M_CLOSE

    if item['ret']:
        # find `->` at depth 0 in the signature
        arrow = None
        pd = 0
        for i in range(0, bo):
            t = toks[i]
            if t.kind == 'punct':
                if t.text in '([<' and not (t.text == '<' and False): pd += (t.text != '<')
                elif t.text in ')]': pd -= 1
                if t.text == '-' and pd == 0 and toks[i + 1].kind == 'punct' and toks[i + 1].text == '>':
                    arrow = i + 2
        if arrow is None:
            raise LostAnchor('fn %s has no return type to name' % item['name'])
        k = arrow
        while toks[k].kind == 'ws': k += 1
        ins(k, '(%s: ' % item['ret'])
        # end of return type = last non-ws token before body (or before `where`)
        endt = bo
        for i in range(arrow, bo):
            if toks[i].kind == 'ident' and toks[i].text == 'where':
                endt = i; break
        k2 = endt - 1
        while toks[k2].kind == 'ws': k2 -= 1
        inserts[k2 + 1] = M_OPEN + ')' + M_CLOSE + inserts.get(k2 + 1, '')
    if item['spec'].strip():
        ins(bo, '\n' + item['spec'])
    loops = _loops(toks, bo, bc)
    for n, txt in item['loops'].items():
        if n < 1 or n > len(loops):
            raise LostAnchor('fn %s: loop %d not found (has %d)' % (item['name'], n, len(loops)))
        ins(loops[n - 1][1], '\n' + txt)
    for where, txt in item['proofs'].items():
        w = where.split()
        if where == 'fn-start':
            ins(bo + 1, '\n' + txt)
        elif where == 'fn-end':
            ins(bc, '\n' + txt)
        elif w[0] == 'loop' and w[2] in ('start', 'end'):
            n = int(w[1])
            if n < 1 or n > len(loops):
                raise LostAnchor('fn %s: loop %d not found' % (item['name'], n))
            ins(loops[n - 1][1] + 1 if w[2] == 'start' else loops[n - 1][2], '\n' + txt)
        else:
            raise SpecError('bad proof location: ' + where)
    out = []
    for i, t in enumerate(toks):
        if i in inserts:
            out.append(inserts[i])
        out.append(t.text)
    emitted = ''.join(out)
    return emitted, ref, dict(lines=(l0, l1), raw=raw, nloops=len(loops))


def erase(text):
    """remove marker-delimited regions, return normalised executable token string"""
    res, i = [], 0
    while True:
        j = text.find(M_OPEN, i)
        if j < 0:
            res.append(text[i:]); break
        res.append(text[i:j])
        k = text.find(M_CLOSE, j)
        if k < 0:
            raise SpecError('unterminated marker')
        i = k + len(M_CLOSE)
    toks = [t for t in lex(''.join(res)) if t.kind not in ('ws', 'comment', 'doc')]
    return ' '.join(t.text for t in toks)


PRELUDE = 'use vstd::prelude::*;\nverus! {\n'
EPILOGUE = '\n} // verus!\nfn main() {}\n'


def assemble(spec_path, canary_for=None):
    blocks = parse_spec(spec_path)
    parts = [PRELUDE]
    items = []
    line = PRELUDE.count('\n') + 1
    for kind, b in blocks:
        if kind == 'verbatim':
            text = b
        else:
            item = b
            if canary_for is not None and item is blocks[canary_for][1]:
                item = dict(item)
                if 'ensures' not in item['spec']:
                    item['spec'] = item['spec'] + '\n ensures false,\n'
                else:
                    item['spec'] = item['spec'].replace('ensures', 'ensures false,', 1)
            emitted, ref, info = build_item(item)
            er = erase(emitted)
            if er != ref:
                raise SpecError('erasure mismatch for %s::%s\n  erased: %s\n  repo:   %s' % (item['file'], item['name'], er, ref))
            if item['impl']:
                text = 'impl %s {\n%s\n}\n' % (item['impl'], emitted)
                first = line + 1
            else:
                text = emitted + '\n'
                first = line
            info.update(first_line=first, last_line=line + text.count('\n'), item=item)
            items.append(info)
        parts.append(text)
        line += text.count('\n')
    parts.append(EPILOGUE)
    return ''.join(parts), items, blocks


def run_verus(path, rlimit=30, timeout=600):
    t0 = time.time()
    p = subprocess.run(['verus', path, '--output-json', '--time', '--rlimit', str(rlimit), '--num-threads', '8'],
                       capture_output=True, text=True, timeout=timeout)
    wall = time.time() - t0
    js = None
    try:
        start = p.stdout.index('{')
        js = json.loads(p.stdout[start:])
    except Exception:
        pass
    return p.returncode, js, p.stdout, p.stderr, wall


_err_loc = re.compile(r'-->\s*([^\s:]+):(\d+):(\d+)')


def failed_items(stderr, items, path):
    """Map Verus error spans to items.  Returns list of (item_info or None, message)."""
    res = []
    cur = None
    for ln in stderr.splitlines():
        if ln.startswith('error'):
            cur = ln
        m = _err_loc.search(ln)
        if m and cur and os.path.basename(m.group(1)) == os.path.basename(path):
            l = int(m.group(2))
            owner = None
            for it in items:
                if it['first_line'] <= l <= it['last_line']:
                    owner = it
            res.append((owner, cur, l))
            cur = None
    return res
