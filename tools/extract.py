"""Item locator over rustlex tokens: finds struct/enum/fn items (optionally inside an impl block)
in a Rust source file and returns their verbatim token span.  Never uses line numbers."""
import os
from rustlex import lex, match_brace, Tok

REPO = os.environ.get('VERIF_REPO', '/repo')
KIRA_SRC = os.path.join(REPO, 'crates/kira/src')


class LostAnchor(Exception):
    pass


def norm(s: str) -> str:
    return ''.join(s.split())


def _code_idx(toks):
    return [i for i, t in enumerate(toks) if t.kind not in ('ws', 'comment', 'doc')]


def _item_start(toks, i):
    """Walk backwards from token index i (the keyword `fn`/`struct`/...) over qualifiers,
    attributes and doc comments; return the index of the first token of the item."""
    j = i
    quals = {'pub', 'const', 'unsafe', 'async', 'extern', 'crate', 'super', 'in', 'default'}
    while True:
        k = j - 1
        while k >= 0 and toks[k].kind == 'ws':
            k -= 1
        if k < 0:
            return j
        t = toks[k]
        if t.kind == 'ident' and t.text in quals:
            j = k; continue
        if t.kind == 'str' and k > 0:  # extern "C"
            j = k; continue
        if t.kind == 'doc':
            j = k; continue
        if t.kind == 'punct' and t.text == ')':
            # pub(crate)
            d, m = 0, k
            while m >= 0:
                if toks[m].kind == 'punct' and toks[m].text == ')': d += 1
                if toks[m].kind == 'punct' and toks[m].text == '(':
                    d -= 1
                    if d == 0: break
                m -= 1
            p = m - 1
            while p >= 0 and toks[p].kind == 'ws': p -= 1
            if p >= 0 and toks[p].kind == 'ident' and toks[p].text == 'pub':
                j = p; continue
            return j
        if t.kind == 'punct' and t.text == ']':
            d, m = 0, k
            while m >= 0:
                if toks[m].kind == 'punct' and toks[m].text == ']': d += 1
                if toks[m].kind == 'punct' and toks[m].text == '[':
                    d -= 1
                    if d == 0: break
                m -= 1
            p = m - 1
            while p >= 0 and toks[p].kind == 'ws': p -= 1
            if p >= 0 and toks[p].kind == 'punct' and toks[p].text == '#':
                j = p; continue
            return j
        return j


def _next_code(toks, i):
    i += 1
    while i < len(toks) and toks[i].kind in ('ws', 'comment', 'doc'):
        i += 1
    return i


def impl_blocks(toks, lo=0, hi=None):
    """Yield (header_norm, open_brace_idx, close_brace_idx) for every impl block at any depth in [lo,hi)."""
    hi = len(toks) if hi is None else hi
    i = lo
    while i < hi:
        t = toks[i]
        if t.kind == 'ident' and t.text == 'impl':
            # header runs to the first `{` at angle/paren depth 0
            j = i + 1
            while j < hi and not (toks[j].kind == 'punct' and toks[j].text == '{'):
                j += 1
            if j >= hi:
                return
            # skip `impl Trait` in type position: heuristically, a real impl item is preceded
            # (ignoring ws/attrs) by start of file, `}`, `;`, `]`, doc comment, or `unsafe`
            p = i - 1
            while p >= 0 and toks[p].kind in ('ws', 'comment'):
                p -= 1
            ok = p < 0 or toks[p].kind == 'doc' or (toks[p].kind == 'punct' and toks[p].text in '};]{') or \
                (toks[p].kind == 'ident' and toks[p].text == 'unsafe')
            if ok:
                header = norm(''.join(x.text for x in toks[i + 1:j] if x.kind not in ('comment', 'doc')))
                # drop where-clauses? keep: they are part of the header
                close = match_brace(toks, j)
                yield header, j, close
                # also look inside (nested impls are rare, but mods inside impl are impossible) -> skip body
                i = close + 1
                continue
        i += 1


def find_item(toks, kind, name, impl=None, nth=0):
    """Return (start, body_open, end) token indices for the item.
    kind in {'fn','struct','enum','const','trait'}.  For items without a brace body (tuple structs,
    consts) body_open is None and end is the index of the terminating `;`."""
    lo, hi = 0, len(toks)
    if impl is not None:
        want = norm(impl)
        found = [(o, c) for h, o, c in impl_blocks(toks) if h == want]
        if not found:
            raise LostAnchor('impl block `%s` not found' % impl)
        spans = found
    else:
        spans = [(lo - 1, hi)]
    hits = []
    for (o, c) in spans:
        i = o + 1
        depth = 0
        while i < c:
            t = toks[i]
            if t.kind == 'punct' and t.text == '{':
                # only look at depth 0 of the span (for impl: direct members; for file: top level + mods)
                i = match_brace(toks, i) + 1
                continue
            if t.kind == 'ident' and t.text == kind:
                n = _next_code(toks, i)
                if n < c and toks[n].kind == 'ident' and toks[n].text == name:
                    start = _item_start(toks, i)
                    # find body `{` or `;`
                    j = n + 1
                    pd = 0
                    while j < c:
                        x = toks[j]
                        if x.kind == 'punct':
                            if x.text in '([':
                                pd += 1
                            elif x.text in ')]':
                                pd -= 1
                            elif x.text == '{' and pd == 0:
                                end = match_brace(toks, j)
                                hits.append((start, j, end))
                                break
                            elif x.text == ';' and pd == 0:
                                hits.append((start, None, j))
                                break
                        j += 1
                    i = (hits[-1][2] + 1) if hits else i + 1
                    continue
            i += 1
    if len(hits) <= nth:
        where = ('impl %s' % impl) if impl else 'file'
        raise LostAnchor('%s `%s` not found in %s' % (kind, name, where))
    return hits[nth]


def load(relpath):
    path = os.path.join(KIRA_SRC, relpath)
    if not os.path.exists(path):
        raise LostAnchor('file %s missing' % path)
    with open(path) as f:
        src = f.read()
    return src, lex(src)


def line_of(src, pos):
    return src.count('\n', 0, pos) + 1


def item_text(relpath, kind, name, impl=None, nth=0):
    src, toks = load(relpath)
    s, b, e = find_item(toks, kind, name, impl, nth)
    return ''.join(t.text for t in toks[s:e + 1]), line_of(src, toks[s].pos), line_of(src, toks[e].pos)


if __name__ == '__main__':
    import sys
    a = sys.argv[1:]
    txt, l0, l1 = item_text(a[0], a[1], a[2], a[3] if len(a) > 3 else None)
    print('// %s:%d-%d' % (a[0], l0, l1))
    print(txt)
