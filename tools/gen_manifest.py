"""writes MANIFEST.json from properties_meta.json (claimed properties) + a not_applicable table"""
import json, os
V = os.path.dirname(os.path.dirname(os.path.abspath(__file__)))
meta = json.load(open(os.path.join(V, 'properties_meta.json')))
all_ids = [json.loads(l)['id'] for l in open(os.path.join(V, 'properties.jsonl'))]
NA = {
 'C09': 'streaming == static is a relational obligation over the real StreamingSound; both bounded Kani formulations of its rtrb consumer path timed out (>30 min / 9 GB on two frames) and Verus cannot parse it (floats, iterators, rtrb): nothing in this family decides it (DESIGN.md §5 C09)',
 'C10': 'thread termination, absence of busy-spinning and bounded-time shutdown are liveness/scheduling properties of a spawned OS thread; Kani has no threads, Verus has no model of std::thread (DESIGN.md §5 C10)',
 'C18': 'decided by Symphonia (external codec dependency, not in /repo) and real file bytes; a contract on kira\'s ~50 lines of glue would assume the whole property as the dependency contract (DESIGN.md §5 C18)',
}
checks, na = [], []
for pid in all_ids:
    m = meta.get(pid)
    if m and m.get('claimed'):
        checks.append({
            'property_id': pid,
            'quick_cmd': './check %s --tier quick' % pid,
            'thorough_cmd': './check %s --tier thorough' % pid,
            'evidence_file': 'evidence/%s.json' % pid,
            'replay_cmd_template': './check --replay {path}',
            'engine': 'contracts',
            'level_claimed': {'category': m['level'], 'text': m['text'], 'design_ref': m.get('design_ref', 'DESIGN.md §5')},
            'level_note': m['note'],
            'technique': m['technique'],
        })
    else:
        na.append({'property_id': pid, 'reason': NA.get(pid) or (m or {}).get('na_reason') or 'not yet under contract in this framework (work in progress): no obligation registered, therefore not claimed'})
man = {
 'version': 1,
 'setup_cmd': './check --setup',
 'hooks': {'guard': 'kani', 'enable': 'no hooks in /repo: harness modules, support code and contract attributes are injected additively into a scratch copy of crates/kira that is compiled with cfg(kani) by kani-compiler; Verus units are extracted mechanically from /repo on every run',
           'baseline_off_cmd': 'cd /repo && cargo test --workspace --no-fail-fast --offline', 'source_commits': [], 'add_only': True},
 'engines': [{'name': 'contracts', 'path': 'check', 'serves_properties': [c['property_id'] for c in checks],
              'kind_free_text': 'contract-based deductive verification: Verus (unbounded, extracted verbatim functions) + Kani/CBMC (function-level pre/postconditions on the real crate; loop-free = complete; bounded stand-ins labelled)'}],
 'checks': checks,
 'not_applicable': na,
 'notes': 'exit 0 = all obligations discharged (KNOWN-FINDING lines for recorded findings); exit 1 = VIOLATION line(s); exit 2 = undecided (timeout, lost anchor, tool limit) - never an alarm. Two genuine defects were repaired in /repo by fix: commits (see known_findings.json).',
}
json.dump(man, open(os.path.join(V, 'MANIFEST.json'), 'w'), indent=1)
print('claimed', [c['property_id'] for c in checks]); print('n/a', [n['property_id'] for n in na])
