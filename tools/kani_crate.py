"""Scratch-crate builder and harness runner for Kani.

The real crate (/repo/crates/kira: src/, Cargo.toml, plus /repo/Cargo.lock) is copied to a scratch directory and
receives only additive edits: `#[cfg(kani)] mod kani_proofs;` lines, the harness files themselves, contract
attributes before anchored functions, and `[workspace]` in Cargo.toml.  Nothing in /repo is touched.
"""
import json, os, re, shutil, subprocess, sys, tempfile, time, tomllib
import extract
from extract import LostAnchor
from rustlex import lex

VERIF = os.path.dirname(os.path.dirname(os.path.abspath(__file__)))
KANI_DIR = os.path.join(VERIF, 'kani')
CACHE = os.path.join(VERIF, '.cache', 'kani-target-seed')
ENV = dict(os.environ, CARGO_NET_OFFLINE='true', CARGO_TERM_COLOR='never')


# ----------------------------------------------------------------------------------------------------------------
# harness registry: metadata lives in structured comments directly above each harness
# ----------------------------------------------------------------------------------------------------------------
_kv = re.compile(r'(\w+)=("([^"]*)"|\S+)')
_fn = re.compile(r'^\s*(pub\s+)?fn\s+(\w+)\s*\(')


def harness_files():
    res = []
    for root, _d, files in os.walk(KANI_DIR):
        for f in files:
            if f == 'kani_proofs.rs':
                res.append(os.path.join(root, f))
    return sorted(res)


def module_of(path):
    rel = os.path.relpath(os.path.dirname(path), KANI_DIR)  # e.g. sound/transport
    return rel


def parse_harnesses():
    """-> list of dict(name, module, path, ids, strength, tier, fn, axioms, bound, finding, req, ens, note, flags)"""
    out = []
    for path in harness_files():
        mod = module_of(path)
        cur = None
        for ln in open(path):
            s = ln.strip()
            if s.startswith('// @ob '):
                kv = {m.group(1): (m.group(3) if m.group(3) is not None else m.group(2)) for m in _kv.finditer(s[7:])}
                cur = dict(ids=kv['id'].split(','), strength=kv.get('strength', 'complete'), tier=kv.get('tier', 'quick'),
                           fn=kv.get('fn', ''), axioms=[a for a in kv.get('axioms', '').split(',') if a],
                           bound=kv.get('bound', ''), finding=kv.get('finding'), req=[], ens=[], note=[],
                           timeout=int(kv.get('timeout', '0')) or None, expect=kv.get('expect', 'pass'),
                           path=path, module=mod)
            elif cur is not None and s.startswith('// @req'):
                cur['req'].append(s[7:].strip())
            elif cur is not None and s.startswith('// @ens'):
                cur['ens'].append(s[7:].strip())
            elif cur is not None and s.startswith('// @note'):
                cur['note'].append(s[8:].strip())
            elif cur is not None:
                m = _fn.match(ln)
                if m:
                    cur['name'] = m.group(2)
                    cur['full'] = mod.replace('/', '::') + '::kani_proofs::' + m.group(2)
                    out.append(cur)
                    cur = None
    return out


def module_deps(mod):
    path = os.path.join(KANI_DIR, mod, 'kani_proofs.rs')
    deps = []
    if os.path.exists(path):
        for ln in open(path):
            if ln.startswith('// @deps '):
                deps += [d.strip() for d in ln[9:].split(',') if d.strip()]
    return deps


def module_closure(modules):
    seen, todo = set(), list(modules)
    while todo:
        m = todo.pop()
        if m in seen:
            continue
        seen.add(m)
        todo += module_deps(m)
    return sorted(seen)


def props_of(h):
    return sorted({i.split('.')[0] for i in h['ids']})


# ----------------------------------------------------------------------------------------------------------------
# scratch crate
# ----------------------------------------------------------------------------------------------------------------
class Scratch:
    def __init__(self, modules, keep=False):
        base = os.environ.get('VERIF_SCRATCH') or os.environ.get('TMPDIR') or '/var/tmp'
        os.makedirs(base, exist_ok=True)
        self.dir = tempfile.mkdtemp(prefix='kira-kani-', dir=base)
        self.crate = os.path.join(self.dir, 'kira')
        self.keep = keep
        self.modules = module_closure(modules)
        self.injected = []
        self._build()

    def _build(self):
        src = os.path.join(extract.REPO, 'crates/kira')
        os.makedirs(self.crate)
        shutil.copytree(os.path.join(src, 'src'), os.path.join(self.crate, 'src'))
        shutil.copy(os.path.join(src, 'Cargo.toml'), self.crate)
        shutil.copy(os.path.join(extract.REPO, 'Cargo.lock'), self.crate)
        with open(os.path.join(self.crate, 'Cargo.toml'), 'a') as f:
            f.write('\n[workspace]\n')
        with open(os.path.join(self.crate, 'Cargo.toml')) as f:
            if 'readme' in f.read():
                pass
        # support module
        sup = os.path.join(KANI_DIR, 'kani_support.rs')
        shutil.copy(sup, os.path.join(self.crate, 'src', 'kani_support.rs'))
        with open(os.path.join(self.crate, 'src', 'lib.rs'), 'a') as f:
            f.write('\n#[cfg(kani)]\npub(crate) mod kani_support;\n')
        self.injected.append('src/lib.rs: +mod kani_support')
        for mod in self.modules:
            hfile = os.path.join(KANI_DIR, mod, 'kani_proofs.rs')
            parent = os.path.join(self.crate, 'src', mod + '.rs')
            if not os.path.exists(parent):
                raise LostAnchor('module file src/%s.rs missing' % mod)
            os.makedirs(os.path.join(self.crate, 'src', mod), exist_ok=True)
            shutil.copy(hfile, os.path.join(self.crate, 'src', mod, 'kani_proofs.rs'))
            with open(parent, 'a') as f:
                f.write('\n#[cfg(kani)]\npub(crate) mod kani_proofs;\n')
            self.injected.append('src/%s.rs: +mod kani_proofs' % mod)
        self._inject_contracts()
        self._rewrite_float_rem()
        if os.path.isdir(CACHE):
            shutil.copytree(CACHE, os.path.join(self.crate, 'target'))

    def _inject_contracts(self):
        path = os.path.join(KANI_DIR, 'contracts.toml')
        if not os.path.exists(path):
            return
        with open(path, 'rb') as f:
            cfg = tomllib.load(f)
        by_file = {}
        for c in cfg.get('contract', []):
            if c.get('module') and c['module'] not in self.modules:
                continue
            by_file.setdefault(c['file'], []).append(c)
        for rel, cs in by_file.items():
            p = os.path.join(self.crate, 'src', rel)
            src = open(p).read()
            toks = lex(src)
            edits = []
            for c in cs:
                s, b, e = extract.find_item(toks, 'fn', c['fn'], c.get('impl'))
                # insert after doc comments/attrs: directly before the first non-doc token of the item is fine for attrs
                edits.append((toks[s].pos, ''.join('#[cfg_attr(kani, %s)]\n' % a for a in c['attrs'])))
                self.injected.append('src/%s: contract attrs on %s' % (rel, c['fn']))
            for pos, txt in sorted(edits, reverse=True):
                src = src[:pos] + txt + src[pos:]
            open(p, 'w').write(src)

    def _rewrite_float_rem(self):
        """K-R1: CBMC 6.11 models the float `%` operator incorrectly (x % y is computed as x - y*(x/y), i.e. ~0:
        `0.5 % 1.0 == 0.0` holds in the model).  The operator cannot be stubbed, so in the scratch copy the two
        uses with divisor 1.0 are rewritten mechanically to `kani_support::rem1(x)` = x - trunc(x), which is exactly
        IEEE fmod(x, 1.0) for every finite x.  Patterns: `(<expr>) % 1.0` and `<place> %= 1.0;`."""
        for rel in ('clock/time.rs', 'modulator/lfo.rs'):
            p = os.path.join(self.crate, 'src', rel)
            if not os.path.exists(p):
                continue
            src = open(p).read()
            toks = [t for t in lex(src)]
            code = [i for i, t in enumerate(toks) if t.kind not in ('ws', 'comment', 'doc')]
            edits = []
            for ci, i in enumerate(code):
                t = toks[i]
                if t.kind == 'punct' and t.text == '%' and ci + 1 < len(code):
                    n1 = toks[code[ci + 1]]
                    if n1.kind == 'num' and n1.text == '1.0' and ci > 0 and toks[code[ci - 1]].text == ')':
                        # find matching '(' backwards
                        depth, k = 0, ci - 1
                        while k >= 0:
                            x = toks[code[k]]
                            if x.kind == 'punct' and x.text == ')': depth += 1
                            if x.kind == 'punct' and x.text == '(':
                                depth -= 1
                                if depth == 0: break
                            k -= 1
                        start = toks[code[k]].pos
                        edits.append((start, toks[code[ci - 1]].end, n1.end))
                    elif n1.kind == 'punct' and n1.text == '=' and ci + 2 < len(code) and toks[code[ci + 2]].text == '1.0':
                        # <place> %= 1.0  : place = tokens back to previous ';' or '{' or '}'
                        k = ci - 1
                        while k >= 0 and toks[code[k]].text not in (';', '{', '}'):
                            k -= 1
                        start = toks[code[k + 1]].pos
                        place = src[start:t.pos].strip()
                        edits.append(('assign', start, toks[code[ci + 2]].end, place))
            if not edits:
                continue
            for e in sorted(edits, key=lambda e: e[1] if e[0] == 'assign' else e[0], reverse=True):
                if e[0] == 'assign':
                    _, a, b, place = e
                    src = src[:a] + '%s = crate::kani_support::rem1(%s)' % (place, place) + src[b:]
                else:
                    a, b, c = e
                    src = src[:a] + 'crate::kani_support::rem1' + src[a:b] + src[c:]
                self.injected.append('src/%s: K-R1 float rem-by-1.0 -> kani_support::rem1 (CBMC frem model is wrong)' % rel)
            open(p, 'w').write(src)

    def cleanup(self):
        if not self.keep:
            shutil.rmtree(self.dir, ignore_errors=True)

    # ------------------------------------------------------------------------------------------------------------
    def cargo_kani(self, harnesses, jobs=8, harness_timeout=None, extra=(), overall_timeout=None, export=None, mem_gb=None):
        cmd = ['cargo', 'kani', '--no-default-features', '--lib', '-Z', 'stubbing', '-Z', 'function-contracts',
               '-Z', 'unstable-options']
        if harnesses:
            cmd.append('--exact')
        for h in harnesses:
            cmd += ['--harness', h]
        if jobs and jobs > 1:
            cmd += ['-j', str(jobs), '--output-format=terse']
        if harness_timeout:
            cmd += ['--harness-timeout', '%ds' % harness_timeout]
        if export:
            cmd += ['--export-json', export]
        cmd += list(extra)
        t0 = time.time()
        try:
            pre = None
            if mem_gb:
                # address-space cap inherited by cbmc: trace generation (--trace) of some failing harnesses grows past RAM;
                # running out of memory then ends in "no counterexample extracted", never in a dead sandbox
                import resource
                lim = int(mem_gb) << 30
                pre = lambda: resource.setrlimit(resource.RLIMIT_AS, (lim, lim))
            p = subprocess.run(cmd, cwd=self.crate, env=ENV, capture_output=True, text=True, timeout=overall_timeout, preexec_fn=pre)
            out, rc = p.stdout + '\n' + p.stderr, p.returncode
        except subprocess.TimeoutExpired as e:
            out = ((e.stdout or b'').decode(errors='replace') if isinstance(e.stdout, bytes) else (e.stdout or '')) + '\n[overall timeout]'
            rc = -9
            subprocess.run(['pkill', '-f', self.dir], capture_output=True)
        return rc, out, time.time() - t0


_thread_check = re.compile(r'^Thread (\d+): Checking harness (\S+?)\.\.\.')
_thread_line = re.compile(r'^Thread (\d+): ?(.*)$')
_single_check = re.compile(r'^Checking harness (\S+?)\.\.\.')


def split_log(out):
    """per-harness text blocks from terse -j output or sequential output"""
    blocks, cur_by_thread, cur = {}, {}, None
    active = None
    for ln in out.splitlines():
        m = _thread_check.match(ln)
        if m:
            cur_by_thread[m.group(1)] = m.group(2)
            blocks.setdefault(m.group(2), [])
            active = None
            continue
        m = _single_check.match(ln)
        if m:
            cur = m.group(1); blocks.setdefault(cur, []); active = cur
            continue
        m = _thread_line.match(ln)
        if m and m.group(1) in cur_by_thread:
            active = cur_by_thread[m.group(1)]
            if m.group(2):
                blocks[active].append(m.group(2))
            continue
        if ln.startswith('Manual Harness Summary') or ln.startswith('Complete - '):
            active = None
        if active is not None:
            blocks[active].append(ln)
    return {k: '\n'.join(v) for k, v in blocks.items()}


def classify(block):
    """-> (status, failed_checks) ; status in pass|fail|timeout|undecided|missing"""
    if block is None:
        return 'missing', []
    failed = []
    m = re.search(r'Failed Checks: (.*?)(?=\nVERIFICATION|\Z)', block, re.S)
    if m:
        for part in re.split(r'\nFailed Checks: ', m.group(1)):
            failed.append(' '.join(part.split()))
    if 'VERIFICATION:- SUCCESSFUL' in block:
        return 'pass', failed
    if 'VERIFICATION:- FAILED' in block:
        low = block.lower()
        if 'cbmc timed out' in low or 'timed out' in low:
            return 'timeout', failed
        if 'out of memory' in low or 'cbmc failed' in low or 'unsupported' in low and not failed:
            return 'undecided', failed
        return 'fail', failed
    if 'timed out' in block.lower() or 'timeout' in block.lower():
        return 'timeout', failed
    return 'undecided', failed


_test_block = re.compile(r'```\n(.*?)```', re.S)


def extract_playback_tests(out):
    """[(check_description, test_fn_name, test_source)]"""
    res = []
    for m in _test_block.finditer(out):
        body = m.group(1)
        fm = re.search(r'fn (kani_concrete_playback_\w+)\(', body)
        cm = re.search(r'/// Check for `(\w+)`: "(.*)"', body)
        if fm:
            res.append((cm.group(1) if cm else '', cm.group(2) if cm else '', fm.group(1), body))
    return res
