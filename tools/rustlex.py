"""Minimal Rust lexer: enough to slice items out of source text by brace matching.

Token kinds: 'comment', 'doc', 'str', 'char', 'lifetime', 'ident', 'num', 'punct', 'ws'.
Every byte of the input belongs to exactly one token, so ''.join(t.text) == source.
"""
import re
from dataclasses import dataclass


@dataclass
class Tok:
    kind: str
    text: str
    pos: int  # byte offset in source

    @property
    def end(self):
        return self.pos + len(self.text)


_ident = re.compile(r'[A-Za-z_][A-Za-z0-9_]*')
_num = re.compile(r'[0-9][0-9A-Za-z_]*(\.[0-9][0-9A-Za-z_]*)?([eE][+-]?[0-9_]+)?[A-Za-z0-9_]*')
_ws = re.compile(r'\s+')
_rawstr = re.compile(r'b?r(#*)"')


def lex(src: str):
    toks = []
    i, n = 0, len(src)
    while i < n:
        c = src[i]
        m = _ws.match(src, i)
        if m:
            toks.append(Tok('ws', m.group(), i)); i = m.end(); continue
        if src.startswith('//', i):
            j = src.find('\n', i)
            j = n if j < 0 else j
            text = src[i:j]
            kind = 'doc' if (text.startswith('///') and not text.startswith('////')) or text.startswith('//!') else 'comment'
            toks.append(Tok(kind, text, i)); i = j; continue
        if src.startswith('/*', i):
            depth, j = 1, i + 2
            while j < n and depth:
                if src.startswith('/*', j): depth += 1; j += 2
                elif src.startswith('*/', j): depth -= 1; j += 2
                else: j += 1
            text = src[i:j]
            kind = 'doc' if (text.startswith('/**') and not text.startswith('/***') and len(text) > 4) or text.startswith('/*!') else 'comment'
            toks.append(Tok(kind, text, i)); i = j; continue
        m = _rawstr.match(src, i)
        if m:
            close = '"' + m.group(1)
            j = src.find(close, m.end())
            j = n if j < 0 else j + len(close)
            toks.append(Tok('str', src[i:j], i)); i = j; continue
        if c == '"' or (c == 'b' and src.startswith('b"', i)):
            j = i + (2 if c == 'b' else 1)
            while j < n and src[j] != '"':
                j += 2 if src[j] == '\\' else 1
            j += 1
            toks.append(Tok('str', src[i:j], i)); i = j; continue
        if c == "'" or (c == 'b' and src.startswith("b'", i)):
            k = i + (2 if c == 'b' else 1)
            # char literal: '\..' or 'x' followed by '
            if k < n and src[k] == '\\':
                j = k + 2
                while j < n and src[j] != "'":
                    j += 1
                j += 1
                toks.append(Tok('char', src[i:j], i)); i = j; continue
            if k + 1 < n and src[k + 1] == "'" and src[k] != "'":
                toks.append(Tok('char', src[i:k + 2], i)); i = k + 2; continue
            # multi-byte char literal e.g. 'é'
            mm = re.compile(r"[^'\\\n]'").match(src, k)
            if mm and not _ident.match(src, k):
                toks.append(Tok('char', src[i:mm.end()], i)); i = mm.end(); continue
            m = _ident.match(src, k)
            if m and c == "'":
                toks.append(Tok('lifetime', src[i:m.end()], i)); i = m.end(); continue
            toks.append(Tok('punct', c, i)); i += 1; continue
        m = _ident.match(src, i)
        if m:
            toks.append(Tok('ident', m.group(), i)); i = m.end(); continue
        if c.isdigit():
            m = _num.match(src, i)
            text = m.group()
            # do not swallow `..` range or method call after integer: `0..n`, `1.max(2)`
            if '.' in text:
                dot = text.index('.')
                after = text[dot + 1:dot + 2]
                if not after.isdigit():
                    text = text[:dot]
            toks.append(Tok('num', text, i)); i += len(text); continue
        toks.append(Tok('punct', c, i)); i += 1
    assert ''.join(t.text for t in toks) == src
    return toks


def code_tokens(toks):
    """Tokens with whitespace/comments/doc removed."""
    return [t for t in toks if t.kind not in ('ws', 'comment', 'doc')]


def match_brace(toks, i, open_c='{', close_c='}'):
    """toks[i] is an opening bracket; return index of its matching close."""
    assert toks[i].kind == 'punct' and toks[i].text == open_c, toks[i]
    depth = 0
    for j in range(i, len(toks)):
        t = toks[j]
        if t.kind != 'punct':
            continue
        if t.text == open_c:
            depth += 1
        elif t.text == close_c:
            depth -= 1
            if depth == 0:
                return j
    raise ValueError('unbalanced bracket at offset %d' % toks[i].pos)
