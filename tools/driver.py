"""check driver: decides one property by discharging its obligations with Verus and Kani on /repo's current source."""
import argparse, glob, json, os, re, shutil, subprocess, sys, time, hashlib

HERE = os.path.dirname(os.path.abspath(__file__))
sys.path.insert(0, HERE)
VERIF = os.path.dirname(HERE)

import extract, verus_unit, kani_crate
from extract import LostAnchor
from verus_unit import SpecError

KNOWN = os.path.join(VERIF, 'known_findings.json')
EVID = os.path.join(VERIF, 'evidence')
REPLAYS = os.path.join(VERIF, 'replays')
META = os.path.join(VERIF, 'properties_meta.json')

EXIT_OK, EXIT_VIOLATION, EXIT_UNDECIDED = 0, 1, 2


def log(*a):
    print(*a, flush=True)


def load_known():
    if not os.path.exists(KNOWN):
        return {'findings': []}
    return json.load(open(KNOWN))


def load_meta():
    return json.load(open(META)) if os.path.exists(META) else {}


def repo_rev():
    try:
        h = subprocess.run(['git', '-C', extract.REPO, 'rev-parse', 'HEAD'], capture_output=True, text=True).stdout.strip()
        d = subprocess.run(['git', '-C', extract.REPO, 'status', '--porcelain', '--', 'crates/kira/src'], capture_output=True, text=True).stdout.strip()
        return h + ('+dirty' if d else '')
    except Exception:
        return 'unknown'


# ---------------------------------------------------------------------------------------------------------------
# Verus side
# ---------------------------------------------------------------------------------------------------------------
def verus_units_for(prop):
    res = []
    for spec in sorted(glob.glob(os.path.join(VERIF, 'verus', '*.spec'))):
        blocks = verus_unit.parse_spec(spec)
        items = [b for k, b in blocks if k == 'item' and b['kind'] == 'fn']
        if any(o.split('.')[0] == prop for it in items for o in it['oblig']):
            res.append(spec)
    return res


def run_verus_unit(spec, prop, outdir):
    """returns dict(unit, obligations=[...], failures=[...], undecided=str|None, assumptions, rewrites, wall)"""
    unit = os.path.splitext(os.path.basename(spec))[0]
    r = dict(unit=unit, obligations=[], failures=[], undecided=None, assumptions=[], rewrites=[], wall=0.0,
             verified=0, canary='not run', cmd='')
    try:
        text, items, blocks = verus_unit.assemble(spec)
    except LostAnchor as e:
        r['undecided'] = 'lost anchor: %s' % e
        return r
    except SpecError as e:
        r['undecided'] = 'spec/erasure error: %s' % e
        return r
    path = os.path.join(outdir, unit + '.rs')
    open(path, 'w').write(text)
    # assumption scan of the assembled file
    for kw in ('assume(', 'admit(', 'external_body', 'assume_specification', 'external_fn_specification', 'external]', 'uninterp'):
        n = text.count(kw)
        if n:
            r['assumptions'].append('verus unit %s: %d x `%s`' % (unit, n, kw.rstrip('(]')))
    for it in items:
        for a, b in it['item']['rewrites']:
            r['rewrites'].append('%s::%s: `%s` ==> `%s`' % (it['item']['file'], it['item']['name'], a, b))
    rc, js, out, err, wall = verus_unit.run_verus(path)
    r['wall'] += wall
    r['cmd'] = 'verus %s.rs --output-json --time --rlimit 30' % unit
    fn_items = [it for it in items if it['item']['kind'] == 'fn']
    if js is None:
        r['undecided'] = 'verus produced no JSON (rc=%s): %s' % (rc, (err or out)[-800:])
        return r
    vr = js.get('verification-results', {})
    r['verified'] = vr.get('verified', 0)
    r['smt_ms'] = js.get('times-ms', {}).get('smt', {}).get('total')
    r['verus_total_ms'] = js.get('times-ms', {}).get('total')
    failed = verus_unit.failed_items(err, items, path)
    if vr.get('encountered-vir-error') or (vr.get('encountered-error') and not failed and vr.get('errors', 0) == 0):
        r['undecided'] = 'verus rejected the unit before verification (unsupported construct / type error):\n' + err[-1500:]
        return r
    failed_names = {}
    for owner, msg, line in failed:
        key = owner['item']['name'] if owner and owner['item']['kind'] == 'fn' else '<unit lemmas/specs>'
        failed_names.setdefault(key, []).append('%s (assembled line %d)' % (msg, line))
    if '<unit lemmas/specs>' in failed_names:
        r['undecided'] = 'a unit lemma failed (not an obligation on repository code): %s' % failed_names['<unit lemmas/specs>']
    rlimit_hit = 'Resource limit' in err or 'rlimit' in err
    for it in fn_items:
        name = it['item']['name']
        ob = dict(ids=it['item']['oblig'], backend='verus', strength='unbounded', unit=unit,
                  function='%s::%s%s' % (it['item']['file'], (it['item']['impl'] + '::') if it['item']['impl'] else '', name),
                  lines='%d-%d' % it['lines'], contract=' '.join(it['item']['spec'].split()),
                  loops_with_invariant=len(it['item']['loops']), status='discharged')
        if name in failed_names:
            ob['status'] = 'undecided' if rlimit_hit else 'failed'
            ob['messages'] = failed_names[name]
            if rlimit_hit:
                r['undecided'] = 'verus resource limit on %s' % name
            else:
                r['failures'].append(ob)
        r['obligations'].append(ob)
    # canary: the same unit with `ensures false` on one function must be REJECTED
    for idx, (k, b) in enumerate(blocks):
        if k == 'item' and b.get('canary'):
            try:
                ctext, citems, _ = verus_unit.assemble(spec, canary_for=idx)
            except Exception as e:
                r['undecided'] = 'canary assembly failed: %s' % e
                break
            cpath = os.path.join(outdir, unit + '_canary.rs')
            open(cpath, 'w').write(ctext)
            crc, cjs, cout, cerr, cwall = verus_unit.run_verus(cpath)
            r['wall'] += cwall
            cfailed = verus_unit.failed_items(cerr, citems, cpath)
            hit = any(o and o['item']['name'] == b['name'] for o, _m, _l in cfailed)
            if hit:
                r['canary'] = 'rejected as required (`ensures false` on %s)' % b['name']
            else:
                r['canary'] = 'ACCEPTED `ensures false` on %s: preconditions contradictory' % b['name']
                if not r['failures']:
                    r['undecided'] = 'vacuity canary accepted for unit %s' % unit
            break
    return r


# ---------------------------------------------------------------------------------------------------------------
# Kani side
# ---------------------------------------------------------------------------------------------------------------
def kani_harnesses_for(prop, tier):
    hs = [h for h in kani_crate.parse_harnesses() if prop in kani_crate.props_of(h) and h['tier'] in ('quick', 'thorough')]
    if tier == 'quick':
        hs = [h for h in hs if h['tier'] == 'quick']
    only = os.environ.get('VERIF_ONLY')
    if only:
        hs = [h for h in hs if any(o in h['full'] for o in only.split(','))]
    return hs


_vals = re.compile(r'^\s*// (.+)$')


def do_replay(scratch, h, single_out):
    """insert the generated playback tests next to the harness and run them natively.  -> list of dict"""
    tests = kani_crate.extract_playback_tests(single_out)
    tests = [t for t in tests if t[0] != 'cover']
    results = []
    if not tests:
        # Kani emits no playback test when the harness reads no nondeterministic value (a fully concrete history)
        # or when trace generation ran out of time: fall back to running the harness natively with an empty value
        # vector (succeeds in reproducing exactly when the failing path needs no symbolic input)
        name = 'kani_concrete_playback_%s_native' % h['name']
        body = ('/// synthesised by the driver: native run of the harness without concrete values\n'
                '#[test]\nfn %s() {\n    let concrete_vals: Vec<Vec<u8>> = vec![];\n    kani::concrete_playback_run(concrete_vals, %s);\n}\n' % (name, h['name']))
        tests = [('assertion', '; '.join(kani_crate.classify(single_out)[1])[:200] or 'native run', name, body)]
    target = os.path.join(scratch.crate, 'src', h['module'], 'kani_proofs.rs')
    with open(target, 'a') as f:
        for kind, desc, name, body in tests:
            f.write('\n' + body + '\n')
    for kind, desc, name, body in tests[:3]:
        cmd = ['cargo', 'kani', 'playback', '-Z', 'concrete-playback', '--no-default-features', '--lib', '--', name]
        try:
            p = subprocess.run(cmd, cwd=scratch.crate, env=kani_crate.ENV, capture_output=True, text=True, timeout=900)
            out = p.stdout + '\n' + p.stderr
            ran = 'running 1 test' in out
            failed = ran and ('test result: FAILED' in out or 'panicked at' in out)
            if failed and ('concrete_vals' in out and 'index out of bounds' in out and 'kani' in out and not re.search(r'panicked at src/(?!.*kani_proofs)', out) and 'C0' not in out and 'C1' not in out):
                failed = False  # the synthesised run needed symbolic values it did not have
            passed = ran and 'test result: ok' in out
        except subprocess.TimeoutExpired:
            out, ran, failed, passed = '[native playback timed out (possible hang in the real code)]', True, True, False
        values = [m.group(1) for m in map(_vals.match, body.splitlines()) if m]
        panic = re.findall(r'panicked at ([^\n]*)\n([^\n]*)', out)
        results.append(dict(check_kind=kind, check=desc, test=name, source=body, values=values,
                            native_ran=ran, native_failed=failed, native_passed=passed,
                            native_panic=[' '.join(x) for x in panic][:3], native_tail=out[-1500:]))
    return results


def run_kani(prop, tier, hs, jobs):
    """returns dict(results per harness, undecided, scratch info)"""
    res = dict(harness={}, undecided=None, injected=[], wall=0.0, cmd='')
    if not hs:
        return res
    modules = sorted({h['module'] for h in hs})
    try:
        scratch = kani_crate.Scratch(modules)
    except LostAnchor as e:
        res['undecided'] = 'lost anchor: %s' % e
        return res
    try:
        res['injected'] = scratch.injected
        names = [h['full'] for h in hs]
        default_to = 850 if tier == 'quick' else 3600
        to = max([h['timeout'] or default_to for h in hs])
        export = os.path.join(scratch.dir, 'export.json')
        rc, out, wall = scratch.cargo_kani(names, jobs=jobs, harness_timeout=to, export=export, overall_timeout=to * 3 + 600)
        res['wall'] = wall
        os.makedirs(os.path.join(VERIF, '.cache'), exist_ok=True)
        open(os.path.join(VERIF, '.cache', 'last_kani_%s.log' % prop), 'w').write(out)
        res['cmd'] = 'cargo kani --no-default-features --lib --exact -Z stubbing -Z function-contracts -Z unstable-options -j %d --output-format=terse --harness-timeout %ds --harness <%d harnesses>' % (jobs, to, len(names))
        if 'error: could not compile' in out or 'error[E' in out and 'Checking harness' not in out:
            res['undecided'] = 'scratch crate did not compile under kani:\n' + '\n'.join(l for l in out.splitlines() if l.startswith('error'))[:1500]
            res['log'] = out[-4000:]
            return res
        blocks = kani_crate.split_log(out)
        exp = {}
        if os.path.exists(export):
            try:
                ej = json.load(open(export))
                for pd in ej.get('property_details', []):
                    exp.setdefault(pd['harness_id'], {})['props'] = pd['property_details']
                for cb in ej.get('cbmc', []):
                    exp.setdefault(cb['harness_id'], {})['stats'] = cb.get('cbmc_stats', {})
                for ed in ej.get('error_details', []):
                    exp.setdefault(ed['harness_id'], {})['err'] = ed
            except Exception:
                pass
        for h in hs:
            b = blocks.get(h['full'])
            status, failed = kani_crate.classify(b)
            tm = re.search(r'Verification Time: ([0-9.]+)s', b or '')
            e = exp.get(h['full']) or {}
            props = e.get('props') or {}
            covers_total = (props.get('satisfied') or 0) + (props.get('unsatisfiable') or 0)
            m = re.search(r'\*\* (\d+) of (\d+) cover properties satisfied', b or '')
            if m:
                cov_sat, cov_tot = int(m.group(1)), int(m.group(2))
            else:
                cov_sat, cov_tot = (props.get('satisfied') or 0), covers_total
            hr = dict(status=status, failed_checks=failed, time_s=float(tm.group(1)) if tm else None,
                      checks_total=props.get('total_properties'), checks_passed=props.get('passed'),
                      covers=(cov_sat, cov_tot), solver_s=(e.get('stats') or {}).get('runtime_solver_s'),
                      stub_lines=[l.strip() for l in (b or '').splitlines() if l.strip().startswith('- Stub:')])
            if status == 'pass' and cov_tot and cov_sat < cov_tot and h['expect'] == 'pass':
                hr['status'] = 'vacuous'
            if status == 'fail':
                only_unwind = failed and all('unwinding assertion' in f for f in failed)
                unsupported = any('is not currently supported by Kani' in f or 'unsupported' in f.lower() for f in failed)
                if only_unwind and 'terminates' not in h['strength']:
                    hr['status'] = 'undecided'
                    hr['why'] = 'only unwinding assertions failed (bound too small for this source)'
                elif unsupported and len(failed) == sum(1 for f in failed if 'unsupported' in f.lower() or 'not currently supported' in f):
                    hr['status'] = 'undecided'
                    hr['why'] = 'unsupported construct reached'
            res['harness'][h['full']] = hr
        # counterexample + native replay for genuinely failed harnesses
        for h in hs:
            hr = res['harness'][h['full']]
            if hr['status'] != 'fail':
                continue
            rc1, out1, w1 = scratch.cargo_kani([h['full']], jobs=1, harness_timeout=to,
                                               extra=['-Z', 'concrete-playback', '--concrete-playback=print'], overall_timeout=to + 600, mem_gb=32)
            res['wall'] += w1
            hr['single_log_tail'] = out1[-3000:]
            st1, failed1 = kani_crate.classify(out1)
            if failed1:
                hr['failed_checks'] = failed1
            hr['replays'] = do_replay(scratch, h, out1)
        return res
    finally:
        scratch.cleanup()


# ---------------------------------------------------------------------------------------------------------------
def decide(prop, tier, jobs):
    t0 = time.time()
    seed = int(os.environ.get('VERIF_SEED', '0') or 0)
    known = load_known()
    meta = load_meta().get(prop, {})
    os.makedirs(EVID, exist_ok=True)
    os.makedirs(REPLAYS, exist_ok=True)
    base = os.environ.get('VERIF_SCRATCH') or os.environ.get('TMPDIR') or '/var/tmp'
    os.makedirs(base, exist_ok=True)
    import tempfile
    vdir = tempfile.mkdtemp(prefix='kira-verus-', dir=base)
    undecided, violations, known_lines = [], [], []
    obligations, bounded, assumptions, trusted = [], [], set(), set()
    try:
        # ---- Verus ----
        vres = []
        for spec in verus_units_for(prop):
            r = run_verus_unit(spec, prop, vdir)
            vres.append(r)
            log('[verus] unit %-16s verified=%s failures=%d canary=%s wall=%.1fs%s' % (
                r['unit'], r['verified'], len(r['failures']), r['canary'], r['wall'], (' UNDECIDED: ' + r['undecided'].splitlines()[0]) if r['undecided'] else ''))
            if r['undecided']:
                undecided.append('verus/%s: %s' % (r['unit'], r['undecided']))
            for a in r['assumptions'] + ['extraction rewrite ' + x for x in r['rewrites']]:
                assumptions.add(a)
            for ob in r['obligations']:
                if any(o.split('.')[0] == prop for o in ob['ids']):
                    obligations.append(ob)
            for ob in r['failures']:
                if any(o.split('.')[0] == prop for o in ob['ids']):
                    violations.append(dict(kind='verus', ob=ob, unit=r['unit']))
        # ---- Kani ----
        hs = kani_harnesses_for(prop, tier)
        kres = run_kani(prop, tier, hs, jobs)
        if kres['undecided']:
            undecided.append('kani: ' + kres['undecided'])
        for h in hs:
            hr = kres['harness'].get(h['full'], dict(status='missing', failed_checks=[], covers=(0, 0)))
            ob = dict(ids=h['ids'], backend='kani', strength=h['strength'], harness=h['full'], function=h['fn'],
                      requires=' '.join(h['req']), ensures=' '.join(h['ens']), bound=h['bound'], axioms=h['axioms'],
                      status={'pass': 'discharged'}.get(hr['status'], hr['status']), time_s=hr.get('time_s'),
                      solver_s=hr.get('solver_s'), cbmc_checks=hr.get('checks_total'), covers=list(hr.get('covers', (0, 0))),
                      finding=h['finding'], expect=h['expect'])
            log('[kani] %-60s %-10s %s covers=%s/%s %s' % (h['full'], hr['status'], ('%.1fs' % hr['time_s']) if hr.get('time_s') else '',
                                                            hr.get('covers', (0, 0))[0], hr.get('covers', (0, 0))[1],
                                                            '; '.join(hr.get('failed_checks', []))[:200]))
            for a in h['axioms']:
                assumptions.add('libm axiom set %s (kani_support.rs model stubbed for the real libm call)' % a)
            if h['finding']:
                # witness harness of a known finding: restricted to the recorded input set; FAIL = defect still present
                entry = next((f for f in known['findings'] if f.get('id') == h['finding'] and f.get('property') == prop), None)
                if hr['status'] == 'fail':
                    if entry and entry.get('status') == 'known':
                        known_lines.append('KNOWN-FINDING: property=%s %s [%s; witness obligation %s still fails: %s]' % (
                            prop, entry['what'], entry['id'], h['ids'][0], '; '.join(hr['failed_checks'])[:160]))
                        ob['status'] = 'known-finding-reproduced'
                    else:
                        violations.append(dict(kind='kani', ob=ob, h=h, hr=hr))
                elif hr['status'] == 'pass':
                    ob['status'] = 'finding-not-reproduced (defect absent on this tree)'
                else:
                    undecided.append('kani/%s: %s %s' % (h['name'], hr['status'], hr.get('why', '')))
                ob['witness'] = True
                bounded.append(ob) if h['strength'] == 'bounded' else obligations.append(ob)
                continue
            if hr['status'] == 'fail':
                violations.append(dict(kind='kani', ob=ob, h=h, hr=hr))
            elif hr['status'] != 'pass':
                undecided.append('kani/%s: %s %s' % (h['name'], hr['status'], hr.get('why', '')))
            (bounded if h['strength'] == 'bounded' else obligations).append(ob)
        # ---- outcome ----
        viol_lines = []
        for v in violations:
            ob = v['ob']
            oid = ob['ids'][0]
            rp = os.path.join(REPLAYS, '%s-%s.json' % (prop, re.sub(r'[^A-Za-z0-9_.]', '_', oid + '-' + (ob.get('harness', ob.get('function', '')).split('::')[-1]))))
            rec = dict(property=prop, obligation=ob['ids'], backend=ob['backend'], function=ob.get('function'),
                       repo_rev=repo_rev(), tier=tier)
            if v['kind'] == 'kani':
                hr = v['hr']
                rec.update(harness=ob['harness'], module=v['h']['module'], requires=ob['requires'], ensures=ob['ensures'],
                           failed_checks=hr['failed_checks'], replays=hr.get('replays', []),
                           verifier_output_tail=hr.get('single_log_tail', ''),
                           replay_cmd='./check --replay %s' % rp)
                native = [r for r in hr.get('replays', []) if r['native_failed']]
                rec['failing_input_found'] = bool(native)
                suffix = '' if native else ' no-failing-input-found'
            else:
                rec.update(unit=v['unit'], contract=ob['contract'], messages=ob.get('messages', []),
                           note='Verus gives no counterexample; failed clause and verifier output attached.')
                rec['failing_input_found'] = False
                suffix = ' no-failing-input-found'
            json.dump(rec, open(rp, 'w'), indent=1)
            viol_lines.append('VIOLATION property=%s replay=%s%s' % (prop, rp, suffix))
        # ---- evidence ----
        proved = [o for o in obligations if not o.get('witness')]
        discharged = [o for o in proved if o['status'] == 'discharged']
        fn_under = sorted({o['function'] for o in obligations + bounded if o.get('function')})
        backends = dict(verus=sum(1 for o in proved if o['backend'] == 'verus'),
                        kani_complete=sum(1 for o in proved if o['backend'] == 'kani' and o['strength'] == 'complete'),
                        kani_axioms=sum(1 for o in proved if o['backend'] == 'kani' and o['strength'] == 'axioms'),
                        kani_bounded=len([b for b in bounded if not b.get('witness')]))
        trusted_base = ['Verus 0.2026.09.13 + bundled Z3' if backends['verus'] else None,
                        'Kani 0.68.0 / CBMC 6.11.0 / CaDiCaL (bit-precise IEEE-754, single-threaded semantics)' if (backends['kani_complete'] + backends['kani_axioms'] + backends['kani_bounded']) else None,
                        'rustc semantics as implemented by the Verus and Kani front ends',
                        'harness preconditions (magnitude bounds, well-formedness predicates) as printed per obligation']
        trusted_base = [t for t in trusted_base if t] + sorted(assumptions)
        level = meta.get('level', 'proof')
        samples = []
        for o in (obligations[:4] + bounded[:2]):
            samples.append({k: o.get(k) for k in ('ids', 'backend', 'strength', 'function', 'harness', 'unit', 'requires', 'ensures', 'contract', 'bound', 'status', 'time_s') if o.get(k) not in (None, '', [])})
        cov = dict(
            obligations=len(proved), discharged=len(discharged),
            checker_cmd='; '.join(x for x in ['; '.join(r['cmd'] for r in vres if r['cmd']), kres.get('cmd', '')] if x) or 'none',
            trusted_base=trusted_base,
            functions_under_contract=fn_under,
            backends=backends,
            obligation_list=obligations,
            bounded=bounded,
            bounded_note='bounded stand-ins are Kani BMC runs of the real functions within the stated bound; never counted in obligations/discharged',
            solver_s=round(sum((o.get('solver_s') or 0) for o in obligations + bounded) + sum((r.get('smt_ms') or 0) / 1000.0 for r in vres), 3),
            verifier_wall_s=round(sum(r['wall'] for r in vres) + kres['wall'], 1),
            covers_hit=sum(o.get('covers', [0, 0])[0] for o in obligations + bounded if o['backend'] == 'kani'),
            covers_total=sum(o.get('covers', [0, 0])[1] for o in obligations + bounded if o['backend'] == 'kani'),
            verus_canaries=[dict(unit=r['unit'], canary=r['canary']) for r in vres],
            scratch_edits=kres.get('injected', []),
            samples=samples,
            not_decided=meta.get('not_decided', []),
            known_findings_reported=known_lines,
            undecided=undecided,
            repo_rev=repo_rev(),
            explanation=meta.get('explanation', ''),
        )
        if level != 'proof' or len(proved) == 0:
            # bounded-only property: report generic counts too so the file validates
            cov['evaluations'] = max(1, len(bounded) + len(proved))
            cov['distinct_nontrivial'] = max(2, len({o.get('harness') or o.get('function') for o in bounded + proved}))
            cov['rule'] = 'one evaluation = one verifier run of one harness/unit (each covers every input within its stated precondition/bound); distinct = distinct harnesses'
            if not cov['explanation']:
                cov['explanation'] = 'bounded Kani model checking of the real functions; see bounded[] for bounds'
        ev = dict(property_id=prop, tier=tier, seed=seed, level=level, coverage=cov,
                  assumptions=sorted(assumptions) + meta.get('assumptions', []),
                  wall_s=round(time.time() - t0, 1), violations=len(viol_lines))
        json.dump(ev, open(os.path.join(EVID, prop + '.json'), 'w'), indent=1)
        # ---- print ----
        for l in known_lines:
            log(l)
        log('[%s/%s] obligations=%d discharged=%d bounded=%d violations=%d undecided=%d wall=%.0fs' % (
            prop, tier, len(proved), len(discharged), len(bounded), len(viol_lines), len(undecided), time.time() - t0))
        if viol_lines:
            for l in viol_lines:
                log(l)
            return EXIT_VIOLATION
        if undecided:
            for u in undecided:
                log('UNDECIDED: ' + u)
            return EXIT_UNDECIDED
        if not proved and not bounded:
            log('UNDECIDED: no obligations registered for %s' % prop)
            return EXIT_UNDECIDED
        return EXIT_OK
    finally:
        shutil.rmtree(vdir, ignore_errors=True)


def replay_file(path):
    rec = json.load(open(path))
    if rec.get('backend') != 'kani' or not rec.get('replays'):
        log('replay file carries no concrete input (obligation %s, backend %s); verifier output:' % (rec.get('obligation'), rec.get('backend')))
        log(json.dumps(rec.get('messages') or rec.get('failed_checks'), indent=1))
        log(rec.get('verifier_output_tail', '')[-1500:])
        return EXIT_VIOLATION
    scratch = kani_crate.Scratch([rec['module']])
    try:
        target = os.path.join(scratch.crate, 'src', rec['module'], 'kani_proofs.rs')
        with open(target, 'a') as f:
            for r in rec['replays']:
                f.write('\n' + r['source'] + '\n')
        bad = 0
        for r in rec['replays']:
            cmd = ['cargo', 'kani', 'playback', '-Z', 'concrete-playback', '--no-default-features', '--lib', '--', r['test']]
            try:
                p = subprocess.run(cmd, cwd=scratch.crate, env=kani_crate.ENV, capture_output=True, text=True, timeout=900)
                out = p.stdout + p.stderr
            except subprocess.TimeoutExpired:
                out = 'test result: FAILED (timeout: possible hang)'
            failed = 'test result: FAILED' in out or 'panicked at' in out
            log('replay %s: %s' % (r['test'], 'FAILS on the real code' if failed else 'passes'))
            if failed:
                bad += 1
                log('\n'.join(l for l in out.splitlines() if 'panicked' in l or 'assertion' in l or 'Failed' in l)[:800])
        return EXIT_VIOLATION if bad else EXIT_OK
    finally:
        scratch.cleanup()


def setup():
    """pre-build the dependency cache (never contains kira sources' artefacts that are reused: kira is rebuilt per run)"""
    shutil.rmtree(kani_crate.CACHE, ignore_errors=True)
    s = kani_crate.Scratch([], keep=False)
    try:
        rc, out, wall = s.cargo_kani([], jobs=1, extra=['--only-codegen'], overall_timeout=1800)
        log('dependency prebuild rc=%s wall=%.0fs' % (rc, wall))
        tgt = os.path.join(s.crate, 'target')
        if os.path.isdir(tgt):
            os.makedirs(os.path.dirname(kani_crate.CACHE), exist_ok=True)
            shutil.copytree(tgt, kani_crate.CACHE)
    finally:
        s.cleanup()
    # verus smoke test
    p = subprocess.run(['verus', '--version'], capture_output=True, text=True)
    log(p.stdout.strip().splitlines()[0] if p.stdout else 'verus: ' + p.stderr[:200])
    return 0


def main():
    ap = argparse.ArgumentParser()
    ap.add_argument('prop', nargs='?')
    ap.add_argument('--tier', default=os.environ.get('VERIF_TIER', 'quick'), choices=['quick', 'thorough'])
    ap.add_argument('--replay')
    ap.add_argument('--setup', action='store_true')
    ap.add_argument('--jobs', type=int, default=int(os.environ.get('VERIF_JOBS', '12')))
    ap.add_argument('--list', action='store_true')
    a = ap.parse_args()
    if a.setup:
        sys.exit(setup())
    if a.replay:
        sys.exit(replay_file(a.replay))
    if a.list:
        for h in kani_crate.parse_harnesses():
            print(','.join(h['ids']), h['strength'], h['tier'], h['full'])
        sys.exit(0)
    if not a.prop:
        ap.error('property id required')
    try:
        sys.exit(decide(a.prop, a.tier, a.jobs))
    except (LostAnchor, SpecError) as e:
        log('UNDECIDED: %s' % e)
        sys.exit(EXIT_UNDECIDED)


if __name__ == '__main__':
    main()
