#!/bin/bash
# usage: tools/seedcheck.sh <seed-id> <property> [only-filter] [tier]
# Runs the property check against a scratch COPY of /repo with the seeded patch applied (VERIF_REPO), so that /repo is
# never modified and other running checks cannot race with it.  Equivalent to: git -C /repo apply <patch>; ./check; git checkout.
set -u
seed=$1; prop=$2; only=${3:-}; tier=${4:-quick}
cd /verif
copy=/var/tmp/seedrepo_$$
rm -rf $copy; mkdir -p $copy/crates
cp -r /repo/crates/kira $copy/crates/kira; rm -rf $copy/crates/kira/target; cp /repo/Cargo.lock $copy/
(cd $copy && git apply /verif/seeded/$seed/patch.diff) || { echo "patch does not apply"; rm -rf $copy; exit 9; }
keep=/var/tmp/evidence_keep_$$; mkdir -p $keep; cp evidence/$prop.json $keep/ 2>/dev/null
if [ -n "$only" ]; then VERIF_REPO=$copy VERIF_ONLY=$only ./check $prop --tier $tier > /var/tmp/seedcheck_$seed.txt 2>&1; else VERIF_REPO=$copy ./check $prop --tier $tier > /var/tmp/seedcheck_$seed.txt 2>&1; fi
rc=$?
cp $keep/$prop.json evidence/ 2>/dev/null; rm -rf $keep $copy
echo "seed=$seed prop=$prop rc=$rc"; grep -E "VIOLATION|UNDECIDED|KNOWN" /var/tmp/seedcheck_$seed.txt | cut -c1-220
