#!/bin/bash
# usage: tools/seedcheck.sh <seed-id> <property> [only-filter] [tier]   -- applies the seeded patch to /repo, runs the check, restores /repo
set -u
seed=$1; prop=$2; only=${3:-}; tier=${4:-quick}
cd /verif
git -C /repo diff --quiet || { echo "/repo not clean"; exit 9; }
git -C /repo apply /verif/seeded/$seed/patch.diff || exit 9
cp -r evidence /var/tmp/evidence_keep_$$ 2>/dev/null
if [ -n "$only" ]; then VERIF_ONLY=$only ./check $prop --tier $tier > /var/tmp/seedcheck_$seed.txt 2>&1; else ./check $prop --tier $tier > /var/tmp/seedcheck_$seed.txt 2>&1; fi
rc=$?
git -C /repo checkout -- .
rm -rf evidence; mv /var/tmp/evidence_keep_$$ evidence
echo "seed=$seed prop=$prop rc=$rc"; grep -E "VIOLATION|UNDECIDED|KNOWN" /var/tmp/seedcheck_$seed.txt | cut -c1-220
